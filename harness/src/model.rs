//! Reference model of `Graph` mutation semantics (written from the C01 statement), the operation
//! alphabet for histories, and the interpreter that runs an operation on the real graph.

use graphrs::{Edge, EdgeDedupeStrategy, Graph, GraphSpecs, MissingNodeStrategy, Node, SelfLoopsFalseStrategy};
use serde::{Deserialize, Serialize};
use std::sync::Arc;

pub type G = Graph<String, i32>;

/// name universe: insertion order differs from sort order, a prefix pair, the empty string
pub const UNIVERSE: [&str; 6] = ["b", "a", "d", "c", "ab", ""];
/// never inserted
pub const ABSENT: &str = "zz";

/// Long names that are never inserted either: 300 bytes of characters of 1, 2, 3 and 4 bytes in
/// turn (in two phases), so that almost every byte offset an error message might be cut at falls
/// inside a character.
pub fn absent_long(phase: usize) -> String {
    let body = "a\u{fc}\u{3042}\u{1f600}".repeat(30);
    if phase % 2 == 0 {
        body
    } else {
        format!("x{}", body)
    }
}

thread_local! {
    static UNIVERSE_SIZE: std::cell::Cell<usize> = const { std::cell::Cell::new(6) };
    /// explicit name universe (histories on the huge graph: hubs, their neighbours, high positions)
    static UNIVERSE_OVERRIDE: std::cell::RefCell<Option<Vec<String>>> = const { std::cell::RefCell::new(None) };
}

/// Replaces the name universe of the calling thread by an explicit list (None = back to the
/// built-in universe). `set_universe` also clears it.
pub fn set_universe_names(names: Option<Vec<String>>) {
    UNIVERSE_OVERRIDE.with(|u| *u.borrow_mut() = names);
}

/// Sets the size of the name universe for the calling thread (6 = the classic universe; larger
/// universes add generated names whose order is unrelated to their index).
pub fn set_universe(n: u8) {
    UNIVERSE_SIZE.with(|u| u.set((n as usize).max(1)));
    set_universe_names(None);
}

pub fn universe_size() -> usize {
    UNIVERSE_SIZE.with(|u| u.get())
}

pub fn uname(i: u8) -> String {
    if let Some(n) = UNIVERSE_OVERRIDE.with(|u| u.borrow().as_ref().map(|v| v[(i as usize) % v.len()].clone())) {
        return n;
    }
    let k = (i as usize) % universe_size();
    if k < UNIVERSE.len() {
        UNIVERSE[k].to_string()
    } else {
        // a bijection on 0..128 so that name order differs from index order
        format!("k{:03}", (k * 29 + 7) % 128)
    }
}

/// all names of the current universe
pub fn universe_names() -> Vec<String> {
    (0..universe_size()).map(|i| uname(i as u8)).collect()
}

#[derive(Clone, Copy, Debug, PartialEq, Eq, Serialize, Deserialize)]
pub struct SpecBits {
    pub directed: bool,
    pub multi: bool,
    pub loops: bool,
    /// 0 Error, 1 KeepFirst, 2 KeepLast
    pub dedupe: u8,
    /// 0 Create, 1 Error
    pub missing: u8,
    /// 0 Error, 1 Drop
    pub loop_strategy: u8,
}

impl SpecBits {
    /// index 0..96
    pub fn from_index(i: u8) -> SpecBits {
        let i = i % 96;
        SpecBits {
            directed: i & 1 == 1,
            multi: (i >> 1) & 1 == 1,
            loops: (i >> 2) & 1 == 1,
            dedupe: (i >> 3) % 3,
            missing: ((i >> 3) / 3) & 1,
            loop_strategy: ((i >> 3) / 6) & 1,
        }
    }
    /// the 8 kinds with the strictest policies (used by the algorithm properties)
    pub fn kind(directed: bool, multi: bool, loops: bool) -> SpecBits {
        SpecBits { directed, multi, loops, dedupe: 0, missing: 1, loop_strategy: 0 }
    }
    pub fn to_specs(self) -> GraphSpecs {
        GraphSpecs {
            directed: self.directed,
            multi_edges: self.multi,
            self_loops: self.loops,
            edge_dedupe_strategy: match self.dedupe {
                0 => EdgeDedupeStrategy::Error,
                1 => EdgeDedupeStrategy::KeepFirst,
                _ => EdgeDedupeStrategy::KeepLast,
            },
            missing_node_strategy: match self.missing {
                0 => MissingNodeStrategy::Create,
                _ => MissingNodeStrategy::Error,
            },
            self_loops_false_strategy: match self.loop_strategy {
                0 => SelfLoopsFalseStrategy::Error,
                _ => SelfLoopsFalseStrategy::Drop,
            },
        }
    }
    pub fn label(self) -> String {
        format!(
            "{}{}{}",
            if self.directed { "D" } else { "U" },
            if self.multi { "M" } else { "s" },
            if self.loops { "L" } else { "n" }
        )
    }
}

pub fn specs_to_bits(s: &GraphSpecs) -> SpecBits {
    SpecBits {
        directed: s.directed,
        multi: s.multi_edges,
        loops: s.self_loops,
        dedupe: match s.edge_dedupe_strategy {
            EdgeDedupeStrategy::Error => 0,
            EdgeDedupeStrategy::KeepFirst => 1,
            EdgeDedupeStrategy::KeepLast => 2,
        },
        missing: match s.missing_node_strategy {
            MissingNodeStrategy::Create => 0,
            MissingNodeStrategy::Error => 1,
        },
        loop_strategy: match s.self_loops_false_strategy {
            SelfLoopsFalseStrategy::Error => 0,
            SelfLoopsFalseStrategy::Drop => 1,
        },
    }
}

/// raw weight byte; its meaning depends on the history's weight mode
#[derive(Clone, Copy, Debug, PartialEq, Eq, Serialize, Deserialize)]
pub struct W(pub u8);

/// 0 = mixed (some NaN, some dyadic), 1 = all weighted (positive dyadic k/4), 2 = all unweighted,
/// 3 = all weighted, tiny dyadic (k+1)*2^-60, 4 = all weighted, large dyadic (k+1)*2^40,
/// 5 = all weighted, values one ulp apart (0.3 and its neighbours, 1/3, 1, 1e16, 2.5)
pub fn weight_of(mode: u8, w: W) -> f64 {
    match mode {
        2 => f64::NAN,
        1 => ((w.0 % 32) as f64 + 1.0) / 4.0,
        3 => ((w.0 % 32) as f64 + 1.0) * (2.0f64).powi(-60),
        4 => ((w.0 % 32) as f64 + 1.0) * (2.0f64).powi(40),
        // neighbouring floats: a few base values and their immediate successors / predecessors
        5 => {
            let base = [0.3f64, 1.0 / 3.0, 1.0, 1e16, 2.5][(w.0 as usize / 3) % 5];
            f64::from_bits((base.to_bits() as i64 + (w.0 % 3) as i64 - 1) as u64)
        }
        _ => {
            if w.0 % 4 == 3 {
                f64::NAN
            } else if w.0 % 32 == 30 {
                -0.0
            } else {
                ((w.0 % 32) as f64 + 1.0) / 4.0
            }
        }
    }
}

#[derive(Clone, Debug, PartialEq, Eq, Serialize, Deserialize)]
pub enum Op {
    AddNode(u8, Option<i32>),
    AddNodes(Vec<(u8, Option<i32>)>),
    AddEdge(u8, u8, W),
    AddEdgeTuple(u8, u8),
    AddEdges(Vec<(u8, u8, W)>),
    AddEdgeTuples(Vec<(u8, u8)>),
}

#[derive(Clone, Debug, PartialEq, Eq, Serialize, Deserialize)]
pub struct HistCase {
    /// size of the name universe (6 unless a "big" history)
    #[serde(default = "default_universe")]
    pub universe: u8,
    /// GraphSpecs index 0..96
    pub spec: u8,
    /// weight mode, see `weight_of`
    pub wmode: u8,
    /// optional `new_from_nodes_and_edges(nodes, edges, specs)` as the first operation
    pub ctor: Option<(Vec<(u8, Option<i32>)>, Vec<(u8, u8, W)>)>,
    pub ops: Vec<Op>,
    /// 0 = an ordinary history; 1 / 2 = the fixed huge-graph case (undirected / directed), see `huge.rs`
    #[serde(default)]
    pub huge: u8,
}

fn default_universe() -> u8 {
    6
}

#[derive(Clone, Debug, PartialEq)]
pub struct MEdge {
    pub u: String,
    pub v: String,
    pub w: f64,
    /// the edge's attributes (a tag unique within the case, or None)
    pub a: Option<i32>,
}

/// kinds of policy events seen while applying operations (for non-triviality / histograms)
#[derive(Clone, Debug, Default)]
pub struct Events {
    pub accepted_edges: u32,
    pub self_loop_policy: u32,
    pub missing_node: u32,
    pub duplicate: u32,
    pub duplicate_reversed_undirected: u32,
    pub node_readd: u32,
    pub batch_fail: u32,
    pub dup_lighter: u32,
    pub dup_heavier: u32,
    pub created_nodes: u32,
}

impl Events {
    pub fn policy_events(&self) -> u32 {
        self.self_loop_policy + self.missing_node + self.duplicate + self.node_readd + self.batch_fail
    }
}

#[derive(Clone, Debug)]
pub struct Model {
    pub spec: SpecBits,
    pub nodes: Vec<(String, Option<i32>)>,
    pub edges: Vec<MEdge>,
    pub ev: Events,
    /// the specification says nothing about the edge attributes of this (derived) graph
    pub ignore_edge_attrs: bool,
}

impl Model {
    pub fn new(spec: SpecBits) -> Model {
        Model { spec, nodes: vec![], edges: vec![], ev: Events::default(), ignore_edge_attrs: false }
    }
    pub fn has(&self, n: &str) -> bool {
        self.nodes.iter().any(|(x, _)| x == n)
    }
    pub fn pos(&self, n: &str) -> Option<usize> {
        self.nodes.iter().position(|(x, _)| x == n)
    }
    pub fn names(&self) -> Vec<String> {
        self.nodes.iter().map(|(n, _)| n.clone()).collect()
    }
    pub fn same_pair(&self, e: &MEdge, u: &str, v: &str) -> bool {
        (e.u == u && e.v == v) || (!self.spec.directed && e.u == v && e.v == u)
    }
    /// stored edges between u and v (either orientation when undirected), in insertion order
    pub fn between(&self, u: &str, v: &str) -> Vec<&MEdge> {
        self.edges.iter().filter(|e| self.same_pair(e, u, v)).collect()
    }
    pub fn add_node(&mut self, n: &str, a: Option<i32>) {
        match self.pos(n) {
            Some(i) => {
                self.nodes[i].1 = a;
                self.ev.node_readd += 1;
            }
            None => self.nodes.push((n.to_string(), a)),
        }
    }
    /// Returns "Ok" or the error kind.
    pub fn add_edge(&mut self, u: &str, v: &str, w: f64) -> &'static str {
        self.add_edge_a(u, v, w, None)
    }
    /// `a`: the attributes carried by the edge object
    pub fn add_edge_a(&mut self, u: &str, v: &str, w: f64, a: Option<i32>) -> &'static str {
        let s = self.spec;
        if !s.loops && u == v {
            self.ev.self_loop_policy += 1;
            return if s.loop_strategy == 0 { "SelfLoopsFound" } else { "Ok" };
        }
        if s.missing == 1 && (!self.has(u) || !self.has(v)) {
            self.ev.missing_node += 1;
            return "NodeNotFound";
        }
        if !self.has(u) {
            self.nodes.push((u.to_string(), None));
            self.ev.created_nodes += 1;
        }
        if !self.has(v) {
            self.nodes.push((v.to_string(), None));
            self.ev.created_nodes += 1;
        }
        let existing: Vec<usize> =
            (0..self.edges.len()).filter(|i| self.same_pair(&self.edges[*i], u, v)).collect();
        if !existing.is_empty() {
            self.ev.duplicate += 1;
            let first = &self.edges[existing[0]];
            if !s.directed && first.u != u {
                self.ev.duplicate_reversed_undirected += 1;
            }
            let minw = existing.iter().map(|i| self.edges[*i].w).fold(f64::INFINITY, f64::min);
            if w < minw {
                self.ev.dup_lighter += 1;
            } else if w > minw {
                self.ev.dup_heavier += 1;
            }
        }
        let new_edge = MEdge { u: u.to_string(), v: v.to_string(), w, a };
        if s.multi || existing.is_empty() {
            self.edges.push(new_edge);
            self.ev.accepted_edges += 1;
            return "Ok";
        }
        match s.dedupe {
            0 => "DuplicateEdge",
            1 => "Ok",
            _ => {
                self.edges[existing[0]] = new_edge;
                self.ev.accepted_edges += 1;
                "Ok"
            }
        }
    }
    pub fn add_edges(&mut self, es: &[(String, String, f64)]) -> &'static str {
        let es: Vec<(String, String, f64, Option<i32>)> = es.iter().map(|(u, v, w)| (u.clone(), v.clone(), *w, None)).collect();
        self.add_edges_a(&es)
    }
    pub fn add_edges_a(&mut self, es: &[(String, String, f64, Option<i32>)]) -> &'static str {
        for (i, (u, v, w, a)) in es.iter().enumerate() {
            let r = self.add_edge_a(u, v, *w, *a);
            if r != "Ok" {
                if i + 1 < es.len() || i > 0 {
                    self.ev.batch_fail += 1;
                }
                return r;
            }
        }
        "Ok"
    }

    /// canonical edge multiset with attributes
    pub fn edge_multiset_a(&self) -> Vec<EdgeKeyA> {
        let mut v: Vec<_> = self.edges.iter().map(|e| canon_edge_a(self.spec.directed, &e.u, &e.v, e.w, e.a)).collect();
        v.sort();
        v
    }
    /// canonical edge multiset: (u, v, weight bits), endpoints sorted when undirected
    pub fn edge_multiset(&self) -> Vec<(String, String, u64)> {
        let mut v: Vec<_> = self.edges.iter().map(|e| canon_edge(self.spec.directed, &e.u, &e.v, e.w)).collect();
        v.sort();
        v
    }
}

/// canonical edge with its attributes
pub type EdgeKeyA = (String, String, u64, Option<i32>);

pub fn canon_edge_a(directed: bool, u: &str, v: &str, w: f64, a: Option<i32>) -> EdgeKeyA {
    let (x, y, b) = canon_edge(directed, u, v, w);
    (x, y, b, a)
}

pub fn graph_edge_multiset_a(g: &G) -> Vec<EdgeKeyA> {
    let mut v: Vec<_> = g.get_all_edges().iter().map(|e| canon_edge_a(g.specs.directed, &e.u, &e.v, e.weight, e.attributes)).collect();
    v.sort();
    v
}

pub fn wbits(w: f64) -> u64 {
    if w.is_nan() {
        u64::MAX
    } else {
        w.to_bits()
    }
}

pub fn canon_edge(directed: bool, u: &str, v: &str, w: f64) -> (String, String, u64) {
    if !directed && u > v {
        (v.to_string(), u.to_string(), wbits(w))
    } else {
        (u.to_string(), v.to_string(), wbits(w))
    }
}

pub fn graph_edge_multiset(g: &G) -> Vec<(String, String, u64)> {
    let mut v: Vec<_> = g.get_all_edges().iter().map(|e| canon_edge(g.specs.directed, &e.u, &e.v, e.weight)).collect();
    v.sort();
    v
}

pub fn mk_node(n: &str, a: Option<i32>) -> Arc<Node<String, i32>> {
    match a {
        Some(a) => Node::from_name_and_attributes(n.to_string(), a),
        None => Node::from_name(n.to_string()),
    }
}

thread_local! {
    /// edge objects handed out during the current case, by (u, v, weight bits)
    static EDGE_POOL: std::cell::RefCell<(std::collections::HashMap<(String, String, u64), Arc<Edge<String, i32>>>, u64)> = std::cell::RefCell::new((std::collections::HashMap::new(), 0));
}

/// Forget the edge objects of the previous case (called at the start of every case, so that a
/// replay is a pure function of the case).
pub fn reset_edge_pool() {
    EDGE_POOL.with(|p| {
        let mut p = p.borrow_mut();
        p.0.clear();
        p.1 = 0;
    });
}

/// Builds an edge. When an edge with the same endpoints and weight was built earlier in the same
/// case, every second request hands out a clone of that very `Arc` instead of a new allocation: a
/// caller may legitimately add one edge object several times (`vec![edge; 2]`), and code that
/// identifies edges by address must cope with it.
///
/// Two requests in three carry attributes: a tag that is unique within the case (the request's
/// sequence number), so that every view of the graph can be checked to return the very edge that
/// was stored, and so that an edge with attributes is sometimes replaced by one without (and
/// vice versa). The caller reads the attributes from the returned object.
pub fn mk_edge(u: &str, v: &str, w: f64) -> Arc<Edge<String, i32>> {
    EDGE_POOL.with(|p| {
        let mut p = p.borrow_mut();
        p.1 += 1;
        let seq = p.1;
        let fresh = || -> Arc<Edge<String, i32>> {
            if seq % 3 == 0 {
                if w.is_nan() {
                    Edge::new(u.to_string(), v.to_string())
                } else {
                    Edge::with_weight(u.to_string(), v.to_string(), w)
                }
            } else {
                Arc::new(Edge { u: u.to_string(), v: v.to_string(), weight: w, attributes: Some(seq as i32) })
            }
        };
        let reuse = p.1 % 2 == 0;
        let key = (u.to_string(), v.to_string(), wbits(w));
        if let Some(e) = p.0.get(&key) {
            if reuse {
                return e.clone();
            }
        }
        let e: Arc<Edge<String, i32>> = fresh();
        p.0.insert(key, e.clone());
        e
    })
}

/// Applies `op` to the model and the graph; returns (model result, graph result).
pub fn apply(op: &Op, wmode: u8, m: &mut Model, g: &mut G) -> (String, String) {
    match op {
        Op::AddNode(n, a) => {
            let n = uname(*n);
            m.add_node(&n, *a);
            g.add_node(mk_node(&n, *a));
            ("Ok".into(), "Ok".into())
        }
        Op::AddNodes(ns) => {
            for (n, a) in ns {
                m.add_node(&uname(*n), *a);
            }
            g.add_nodes(ns.iter().map(|(n, a)| mk_node(&uname(*n), *a)).collect());
            ("Ok".into(), "Ok".into())
        }
        Op::AddEdge(u, v, w) => {
            let (u, v, w) = (uname(*u), uname(*v), weight_of(wmode, *w));
            let e = mk_edge(&u, &v, w);
            let mr = m.add_edge_a(&u, &v, w, e.attributes);
            let gr = g.add_edge(e);
            (mr.into(), crate::core::res_kind(&gr))
        }
        Op::AddEdgeTuple(u, v) if matches!(wmode, 1 | 3 | 4 | 5) => apply(&Op::AddEdge(*u, *v, W(3)), wmode, m, g),
        Op::AddEdgeTuples(es) if matches!(wmode, 1 | 3 | 4 | 5) => {
            apply(&Op::AddEdges(es.iter().map(|(u, v)| (*u, *v, W(3))).collect()), wmode, m, g)
        }
        Op::AddEdgeTuple(u, v) => {
            let (u, v) = (uname(*u), uname(*v));
            let mr = m.add_edge(&u, &v, f64::NAN);
            let gr = g.add_edge_tuple(u, v);
            (mr.into(), crate::core::res_kind(&gr))
        }
        Op::AddEdges(es) => {
            let es: Vec<(String, String, f64)> = es.iter().map(|(u, v, w)| (uname(*u), uname(*v), weight_of(wmode, *w))).collect();
            let objs: Vec<Arc<Edge<String, i32>>> = es.iter().map(|(u, v, w)| mk_edge(u, v, *w)).collect();
            let esa: Vec<(String, String, f64, Option<i32>)> = es.iter().zip(objs.iter()).map(|((u, v, w), e)| (u.clone(), v.clone(), *w, e.attributes)).collect();
            let mr = m.add_edges_a(&esa);
            let gr = g.add_edges(objs);
            (mr.into(), crate::core::res_kind(&gr))
        }
        Op::AddEdgeTuples(es) => {
            let es2: Vec<(String, String, f64)> = es.iter().map(|(u, v)| (uname(*u), uname(*v), f64::NAN)).collect();
            let mr = m.add_edges(&es2);
            let gr = g.add_edge_tuples(es.iter().map(|(u, v)| (uname(*u), uname(*v))).collect());
            (mr.into(), crate::core::res_kind(&gr))
        }
    }
}

/// Does the op carry an explicit weight that is NaN-free? (ops with tuples are always unweighted)
pub fn op_is_tuple(op: &Op) -> bool {
    matches!(op, Op::AddEdgeTuple(..) | Op::AddEdgeTuples(..))
}
