//! gverif: property-based verification harness for malcolmvr/graphrs (library part, shared with the fuzz targets)

pub mod altkey;
pub mod coherent;
pub mod core;
pub mod engine;
pub mod gen;
pub mod graphcase;
pub mod huge;
pub mod oracle;
pub mod xmlgen;
pub mod model;
pub mod props;
pub mod fuzz;
