//! Entry points for the coverage-guided (libFuzzer) targets in /verif/fuzz: the semantic oracles
//! run inside the target; an unlisted failure writes a JSON replay and aborts the process so that
//! libFuzzer keeps the input.

use crate::core::*;
use crate::engine::{load_known, KnownFinding, Prop};
use crate::model::*;
use crate::props::{c01, c02, c03, c19};
use std::path::PathBuf;
use std::sync::OnceLock;

fn root() -> PathBuf {
    PathBuf::from(std::env::var("VERIF_ROOT").unwrap_or_else(|_| "/verif".to_string()))
}

fn known(id: &str) -> &'static Vec<KnownFinding> {
    static K: OnceLock<Vec<KnownFinding>> = OnceLock::new();
    K.get_or_init(|| {
        let mut v = vec![];
        for p in ["C01", "C02", "C03", "C19"] {
            v.extend(load_known(&root(), p));
        }
        v
    });
    let _ = id;
    K.get().unwrap()
}

fn report<C: serde::Serialize>(id: &str, case: &C, out: Outcome) {
    let unlisted: Vec<&Failure> = out.failures.iter().filter(|f| !known(id).iter().any(|k| k.property == id && k.signature == f.sig)).collect();
    if let Some(f) = unlisted.first() {
        let dir = root().join("replays").join("found");
        let _ = std::fs::create_dir_all(&dir);
        let body = serde_json::json!({ "property": id, "signature": f.sig, "message": f.msg, "origin": "libFuzzer target", "case": case });
        let text = serde_json::to_string_pretty(&body).unwrap_or_default();
        let path = dir.join(format!("{}-fuzz-{:016x}.json", id, fnv(text.as_bytes())));
        let _ = std::fs::write(&path, text);
        println!("  failure {}: {}", f.sig, f.msg);
        println!("VIOLATION property={} replay={}", id, path.display());
        std::process::abort();
    }
}

/// byte 0 = GraphSpecs index, rest = document (lossy UTF-8)
pub fn graphml_read(data: &[u8]) {
    install_panic_hook();
    if data.is_empty() {
        return;
    }
    let case = c19::ReaderCase::Raw { text: String::from_utf8_lossy(&data[1..]).into_owned(), spec: data[0] % 96 };
    let out = c19::C19.check(&case);
    report("C19", &case, out);
}

/// Decodes bytes into a history (structure-aware, every byte string is a valid history).
pub fn decode_history(data: &[u8]) -> HistCase {
    let mut u = arbitrary::Unstructured::new(data);
    let mut b = |u: &mut arbitrary::Unstructured| -> u8 { u.arbitrary::<u8>().unwrap_or(0) };
    let spec = b(&mut u) % 96;
    let wmode = b(&mut u) % 3;
    let mut ops = vec![];
    while !u.is_empty() && ops.len() < 24 {
        let k = b(&mut u);
        let op = match k % 8 {
            0 | 1 | 2 => Op::AddEdge(b(&mut u) % 6, b(&mut u) % 6, W(b(&mut u) % 32)),
            3 => Op::AddEdgeTuple(b(&mut u) % 6, b(&mut u) % 6),
            4 => {
                let a = b(&mut u);
                Op::AddNode(a % 6, if a & 0x80 != 0 { Some((a as i32 >> 4) & 3) } else { None })
            }
            5 => {
                let n = b(&mut u) % 4;
                Op::AddNodes((0..n).map(|_| { let a = b(&mut u); (a % 6, if a & 0x80 != 0 { Some(1) } else { None }) }).collect())
            }
            6 => {
                let n = b(&mut u) % 5;
                Op::AddEdges((0..n).map(|_| (b(&mut u) % 6, b(&mut u) % 6, W(b(&mut u) % 32))).collect())
            }
            _ => {
                let n = b(&mut u) % 4;
                Op::AddEdgeTuples((0..n).map(|_| (b(&mut u) % 6, b(&mut u) % 6)).collect())
            }
        };
        ops.push(op);
    }
    HistCase { universe: 6, spec, wmode, ctor: None, ops, huge: 0 }
}

pub fn graph_history(data: &[u8]) {
    install_panic_hook();
    let case = decode_history(data);
    report("C01", &case, c01::C01.check(&case));
    report("C02", &case, c02::C02::check_light(&case));
    if case.wmode != 0 {
        report("C03", &case, c03::C03.check(&case));
    }
}

/// Writes a seed corpus for the two targets (deterministic).
pub fn emit_corpus(dir: &std::path::Path) {
    use proptest::strategy::{Strategy, ValueTree};
    use proptest::test_runner::{Config, RngSeed, TestRunner};
    let mut runner = TestRunner::new(Config { rng_seed: RngSeed::Fixed(7), failure_persistence: None, ..Config::default() });
    let gd = dir.join("graphml_read");
    let hd = dir.join("graph_history");
    let _ = std::fs::create_dir_all(&gd);
    let _ = std::fs::create_dir_all(&hd);
    for (i, d) in c19::golden_docs().into_iter().enumerate() {
        let mut bytes = vec![(i * 5) as u8];
        bytes.extend(d.as_bytes());
        let _ = std::fs::write(gd.join(format!("golden{}", i)), bytes);
    }
    let strat = (crate::xmlgen::doc(), 0u8..96);
    for i in 0..40 {
        if let Ok(t) = strat.new_tree(&mut runner) {
            let (doc, spec) = t.current();
            let mut bytes = vec![spec];
            bytes.extend(crate::xmlgen::write_doc(&doc, None).as_bytes());
            let _ = std::fs::write(gd.join(format!("gen{:02}", i)), bytes);
        }
    }
    // library output
    for (i, kind) in [0u8, 1, 3, 6].iter().enumerate() {
        let case = crate::props::c14::RtCase { kind: *kind, names: vec!["a".into(), "b<".into(), "".into()], edges: vec![(0, 1, Some(1.5f64.to_bits())), (1, 2, None), (0, 1, Some(2.0f64.to_bits())), (2, 2, None)], via_file: false };
        let (g, _, _) = crate::props::c14::build(&case);
        if let Ok(s) = graphrs::readwrite::graphml::write_graphml_string(&g) {
            let mut bytes = vec![*kind * 11];
            bytes.extend(s.as_bytes());
            let _ = std::fs::write(gd.join(format!("written{}", i)), bytes);
        }
    }
    // histories: a few byte strings that decode to interesting histories
    let seeds: Vec<Vec<u8>> = vec![
        vec![8, 1, 0, 0, 1, 3, 0, 0, 1, 1],
        vec![16, 1, 0, 0, 1, 3, 0, 1, 0, 7],
        vec![5, 0, 0, 1, 1, 3, 3, 1, 1],
        vec![2, 1, 0, 0, 1, 3, 0, 0, 1, 3, 0, 1, 0, 1],
        vec![40, 2, 6, 3, 0, 1, 0, 1, 2, 0, 2, 2, 0, 4, 0x81, 7, 2, 0, 1, 1, 0],
    ];
    for (i, s) in seeds.into_iter().enumerate() {
        let _ = std::fs::write(hd.join(format!("seed{}", i)), s);
    }
}
