//! Shared proptest strategies: histories over the small name universe.

use crate::model::*;
use proptest::collection::vec;
use proptest::prelude::*;

pub fn name() -> impl Strategy<Value = u8> {
    prop_oneof![6 => 0u8..3, 2 => 3u8..6]
}

pub fn attr() -> impl Strategy<Value = Option<i32>> {
    prop_oneof![Just(None), (0..4i32).prop_map(Some)]
}

pub fn w() -> impl Strategy<Value = W> {
    (0u8..32).prop_map(W)
}

pub fn op() -> impl Strategy<Value = Op> {
    prop_oneof![
        8 => (name(), name(), w()).prop_map(|(u, v, w)| Op::AddEdge(u, v, w)),
        2 => (name(), name()).prop_map(|(u, v)| Op::AddEdgeTuple(u, v)),
        4 => (name(), attr()).prop_map(|(n, a)| Op::AddNode(n, a)),
        1 => vec((name(), attr()), 0..4).prop_map(Op::AddNodes),
        3 => vec((name(), name(), w()), 0..5).prop_map(Op::AddEdges),
        2 => vec((name(), name()), 0..4).prop_map(Op::AddEdgeTuples),
    ]
}

/// histories of up to `max_len` operations under a uniformly drawn GraphSpecs index;
/// `wmodes` lists the admissible weight modes (see `weight_of`)
pub fn hist(max_len: usize, wmodes: &'static [u8]) -> BoxedStrategy<HistCase> {
    (
        0u8..96,
        proptest::sample::select(wmodes),
        proptest::option::weighted(0.15, (vec((name(), attr()), 0..5), vec((name(), name(), w()), 0..6))),
        vec(op(), 0..=max_len),
    )
        .prop_map(|(spec, wmode, ctor, ops)| HistCase { universe: 6, spec, wmode, ctor, ops, huge: 0 })
        .boxed()
}

/// all histories of length <= 3 over a 6-operation alphabet, under all 96 specs (seed independent)
pub fn enumerate_histories(wmode: u8) -> Vec<HistCase> {
    let alphabet = vec![
        Op::AddNode(1, None),
        Op::AddNode(0, Some(1)),
        Op::AddEdge(0, 1, W(3)), // b -> a, weight 1.0
        Op::AddEdge(1, 0, W(7)), // a -> b, weight 2.0
        Op::AddEdge(1, 1, W(3)), // a -> a
        Op::AddEdge(0, 1, W(1)), // b -> a, weight 0.5
    ];
    let mut seqs: Vec<Vec<Op>> = vec![vec![]];
    let mut frontier: Vec<Vec<Op>> = vec![vec![]];
    for _ in 0..3 {
        let mut next = vec![];
        for s in &frontier {
            for o in &alphabet {
                let mut t = s.clone();
                t.push(o.clone());
                next.push(t);
            }
        }
        seqs.extend(next.iter().cloned());
        frontier = next;
    }
    let mut out = vec![];
    for spec in 0..96u8 {
        for s in &seqs {
            out.push(HistCase { universe: 6, spec, wmode, ctor: None, ops: s.clone(), huge: 0 });
        }
    }
    out
}

/// "big" histories: a universe of 34..=64 names and 40..=160 operations, most of them edges
/// incident to one of two hub names (in either orientation), so that nodes with dozens of
/// neighbours, node sets with more than 16 members and long adjacency lists arise
pub fn hist_big(wmodes: &'static [u8]) -> BoxedStrategy<HistCase> {
    let hub_edge = (0u8..2, any::<u8>(), any::<bool>(), w()).prop_map(|(h, x, flip, w)| if flip { Op::AddEdge(x, h, w) } else { Op::AddEdge(h, x, w) });
    let any_edge = (any::<u8>(), any::<u8>(), w()).prop_map(|(u, v, w)| Op::AddEdge(u, v, w));
    let node = (any::<u8>(), attr()).prop_map(|(n, a)| Op::AddNode(n, a));
    let batch = vec((any::<u8>(), any::<u8>(), w()), 0..6).prop_map(Op::AddEdges);
    let op = prop_oneof![10 => hub_edge, 4 => any_edge, 2 => node, 1 => batch];
    (34u8..=64, 0u8..96, proptest::sample::select(wmodes), vec(op, 40..=160))
        .prop_map(|(universe, spec, wmode, ops)| HistCase { universe, spec, wmode, ctor: None, ops, huge: 0 })
        .boxed()
}
