//! Seeded proptest runners on N threads, shrinking, replay, known findings, watchdog, evidence.

use crate::core::*;
use proptest::strategy::{BoxedStrategy, Strategy};
use proptest::test_runner::{Config, RngSeed, TestCaseError, TestError, TestRunner};
use serde::{de::DeserializeOwned, Serialize};
use std::cell::Cell;
use std::collections::{BTreeMap, HashSet};
use std::fmt::Debug;
use std::path::{Path, PathBuf};
use std::sync::atomic::{AtomicBool, AtomicU64, AtomicUsize, Ordering};
use std::sync::{Arc, Mutex};
use std::time::{Duration, Instant};

#[derive(Clone, Copy, Debug, PartialEq, Eq)]
pub enum Tier {
    Quick,
    Thorough,
}

impl Tier {
    pub fn name(self) -> &'static str {
        match self {
            Tier::Quick => "quick",
            Tier::Thorough => "thorough",
        }
    }
    pub fn pick<T>(self, q: T, t: T) -> T {
        match self {
            Tier::Quick => q,
            Tier::Thorough => t,
        }
    }
}

#[derive(Clone, Debug)]
pub struct Opts {
    pub tier: Tier,
    pub seed: u64,
    pub replay: Option<PathBuf>,
    pub root: PathBuf,
    /// treat known findings as violations too (used when replaying by hand)
    pub strict: bool,
    /// scale factor on the number of random cases (for experiments)
    pub scale: f64,
    pub no_evidence: bool,
}

pub trait Prop: Sync {
    type Case: Clone + Debug + Serialize + DeserializeOwned + Send + Sync + 'static;
    fn id(&self) -> &'static str;
    fn level(&self) -> &'static str {
        "exploration"
    }
    fn rule(&self) -> String;
    fn assumptions(&self) -> Vec<String>;
    /// seed-independent exhaustive block
    fn enumerate(&self, _tier: Tier) -> Vec<Self::Case> {
        vec![]
    }
    fn strategy(&self, tier: Tier) -> BoxedStrategy<Self::Case>;
    fn random_cases(&self, tier: Tier) -> u32;
    fn check(&self, case: &Self::Case) -> Outcome;
    fn threads(&self) -> usize {
        16
    }
    /// the property itself states "does not hang"
    fn hang_is_violation(&self) -> bool {
        false
    }
    fn case_timeout_s(&self) -> u64 {
        120
    }
    /// extra, informational material for the evidence file
    fn extra_evidence(&self, _root: &Path) -> serde_json::Value {
        serde_json::Value::Null
    }
}

#[derive(Clone, Debug)]
pub struct KnownFinding {
    pub property: String,
    pub signature: String,
    pub what: String,
}

/// Parses known_findings.txt: lines `known: property=<id> signature=<sig> <what fails>` are
/// suppressed (and reported as KNOWN-FINDING); `fixed:` lines are documentation and suppress nothing.
pub fn load_known(root: &Path, property: &str) -> Vec<KnownFinding> {
    let mut out = vec![];
    let text = std::fs::read_to_string(root.join("known_findings.txt")).unwrap_or_default();
    for line in text.lines() {
        let line = line.trim();
        let Some(rest) = line.strip_prefix("known:") else {
            continue;
        };
        let mut prop = None;
        let mut sig = None;
        let mut what = vec![];
        for tok in rest.split_whitespace() {
            if let Some(p) = tok.strip_prefix("property=") {
                if prop.is_none() {
                    prop = Some(p.to_string());
                    continue;
                }
            }
            if let Some(s) = tok.strip_prefix("signature=") {
                if sig.is_none() {
                    sig = Some(s.to_string());
                    continue;
                }
            }
            what.push(tok);
        }
        if let (Some(p), Some(s)) = (prop, sig) {
            if p == property {
                out.push(KnownFinding { property: p, signature: s, what: what.join(" ") });
            }
        }
    }
    out
}

#[derive(Default)]
struct Stats {
    evaluations: u64,
    enumerated: u64,
    random: u64,
    replayed: u64,
    api_calls: u64,
    nontrivial: HashSet<u64>,
    nontrivial_total: u64,
    classes: Histogram,
    known_hits: BTreeMap<String, u64>,
    samples: Vec<serde_json::Value>,
    last_nontrivial: Option<serde_json::Value>,
}

impl Stats {
    fn merge(&mut self, o: Stats) {
        self.evaluations += o.evaluations;
        self.enumerated += o.enumerated;
        self.random += o.random;
        self.replayed += o.replayed;
        self.api_calls += o.api_calls;
        self.nontrivial_total += o.nontrivial_total;
        self.nontrivial.extend(o.nontrivial);
        for (k, v) in o.classes {
            *self.classes.entry(k).or_default() += v;
        }
        for (k, v) in o.known_hits {
            *self.known_hits.entry(k).or_default() += v;
        }
        for s in o.samples {
            if self.samples.len() < 6 {
                self.samples.push(s);
            }
        }
        if o.last_nontrivial.is_some() {
            self.last_nontrivial = o.last_nontrivial;
        }
    }
}

#[derive(Clone, Debug)]
struct Violation {
    sig: String,
    msg: String,
    case_json: serde_json::Value,
    origin: String,
}

#[derive(Clone, Copy, PartialEq)]
enum Phase {
    Replay,
    Enumerated,
    Random,
}

struct Shared<'a, P: Prop> {
    prop: &'a P,
    known: Vec<KnownFinding>,
    strict: bool,
    stop: AtomicBool,
    slots: Vec<Mutex<Option<(Instant, String)>>>,
}

impl<'a, P: Prop> Shared<'a, P> {
    /// Runs one case; returns unlisted failures.
    fn eval(&self, case: &P::Case, slot: usize, stats: Option<&mut Stats>, phase: Phase) -> Vec<Failure> {
        let js = serde_json::to_string(case).unwrap_or_default();
        *self.slots[slot].lock().unwrap() = Some((Instant::now(), js.clone()));
        let out = match guard(|| self.prop.check(case)) {
            Ok(o) => o,
            Err(p) => {
                // a panic that escaped the property's own guards: either the harness or the
                // library; attribute it to the library only if the location is in /repo
                let mut o = Outcome::new();
                if p.contains("/repo/") || p.contains("graphrs") {
                    o.fail(format!("uncaught_panic/{}", panic_class(&p)), p);
                } else {
                    eprintln!("HARNESS PANIC (not a violation): {}", p);
                    *self.slots[slot].lock().unwrap() = None;
                    std::process::exit(2);
                }
                o
            }
        };
        *self.slots[slot].lock().unwrap() = None;
        let mut unlisted = vec![];
        let mut hits = vec![];
        for f in out.failures {
            if !self.strict && self.known.iter().any(|k| k.signature == f.sig) {
                hits.push(f.sig);
            } else {
                unlisted.push(f);
            }
        }
        if let Some(st) = stats {
            st.evaluations += 1;
            match phase {
                Phase::Replay => st.replayed += 1,
                Phase::Enumerated => st.enumerated += 1,
                Phase::Random => st.random += 1,
            }
            st.api_calls += out.api_calls;
            for c in out.classes {
                *st.classes.entry(c).or_default() += 1;
            }
            for h in hits {
                *st.known_hits.entry(h).or_default() += 1;
            }
            if out.nontrivial {
                st.nontrivial_total += 1;
                let fresh = st.nontrivial.insert(fnv(js.as_bytes()));
                if fresh {
                    let v: serde_json::Value = serde_json::from_str(&js).unwrap_or(serde_json::Value::Null);
                    if st.samples.len() < 3 {
                        st.samples.push(v.clone());
                    }
                    st.last_nontrivial = Some(v);
                }
            }
        }
        unlisted
    }
}

fn write_replay(root: &Path, id: &str, v: &Violation) -> PathBuf {
    let dir = root.join("replays").join("found");
    let _ = std::fs::create_dir_all(&dir);
    let body = serde_json::json!({
        "property": id,
        "signature": v.sig,
        "message": v.msg,
        "origin": v.origin,
        "case": v.case_json,
    });
    let text = serde_json::to_string_pretty(&body).unwrap();
    let path = dir.join(format!("{}-{:016x}.json", id, fnv(text.as_bytes())));
    let _ = std::fs::write(&path, text);
    path
}

fn read_case<C: DeserializeOwned>(path: &Path) -> Result<C, String> {
    let text = std::fs::read_to_string(path).map_err(|e| format!("{}: {}", path.display(), e))?;
    let v: serde_json::Value = serde_json::from_str(&text).map_err(|e| format!("{}: {}", path.display(), e))?;
    let c = v.get("case").cloned().unwrap_or(v);
    serde_json::from_value(c).map_err(|e| format!("{}: {}", path.display(), e))
}

pub fn run<P: Prop>(prop: &P, opts: &Opts) -> i32 {
    install_panic_hook();
    let t0 = Instant::now();
    let id = prop.id();
    let known = load_known(&opts.root, id);
    let nthreads = prop.threads().max(1);
    let shared = Arc::new(Shared {
        prop,
        known: known.clone(),
        strict: opts.strict,
        stop: AtomicBool::new(false),
        slots: (0..nthreads + 1).map(|_| Mutex::new(None)).collect(),
    });
    let mut stats = Stats::default();
    let mut violations: Vec<Violation> = vec![];

    // ---- explicit replay of one file
    if let Some(path) = &opts.replay {
        let case: P::Case = match read_case(path) {
            Ok(c) => c,
            Err(e) => {
                eprintln!("cannot read replay file: {}", e);
                return 2;
            }
        };
        let fails = shared.eval(&case, 0, Some(&mut stats), Phase::Replay);
        for (k, n) in &stats.known_hits {
            let what = known.iter().find(|f| &f.signature == k).map(|f| f.what.clone()).unwrap_or_default();
            println!("KNOWN-FINDING: property={} {} [signature={} hits={}]", id, what, k, n);
        }
        if fails.is_empty() {
            println!("replay {}: property {} held", path.display(), id);
            return 0;
        }
        for f in &fails {
            println!("  failure {}: {}", f.sig, f.msg);
        }
        println!("VIOLATION property={} replay={}", id, path.display());
        return 1;
    }

    // ---- watchdog
    let done = Arc::new(AtomicBool::new(false));
    // Where the property says nothing about termination, the watchdog only has to tell a hang from
    // an expensive case: ten minutes, so that a loaded machine does not turn a slow case into an
    // INCONCLUSIVE run. Where a hang is a violation the property's own limit applies.
    let timeout = Duration::from_secs(if prop.hang_is_violation() { prop.case_timeout_s() } else { prop.case_timeout_s().max(600) });
    let hang: Arc<Mutex<Option<String>>> = Arc::new(Mutex::new(None));

    std::thread::scope(|scope| {
        {
            let shared = shared.clone();
            let done = done.clone();
            let hang = hang.clone();
            let root = opts.root.clone();
            let hang_is_violation = prop.hang_is_violation();
            scope.spawn(move || {
                while !done.load(Ordering::Relaxed) {
                    std::thread::sleep(Duration::from_millis(250));
                    for s in shared.slots.iter() {
                        let g = s.lock().unwrap();
                        if let Some((t, js)) = g.as_ref() {
                            if t.elapsed() > timeout {
                                let v = Violation {
                                    sig: "watchdog/case_timeout".into(),
                                    msg: format!("case still running after {} s", timeout.as_secs()),
                                    case_json: serde_json::from_str(js).unwrap_or(serde_json::Value::Null),
                                    origin: "watchdog".into(),
                                };
                                let p = write_replay(&root, id, &v);
                                *hang.lock().unwrap() = Some(p.display().to_string());
                                if hang_is_violation {
                                    println!("VIOLATION property={} replay={}", id, p.display());
                                    std::process::exit(1);
                                } else {
                                    println!("INCONCLUSIVE property={} watchdog expired, case saved to {}", id, p.display());
                                    std::process::exit(2);
                                }
                            }
                        }
                    }
                }
            });
        }

        // ---- regression tier: committed replays
        let dir = opts.root.join("replays").join(id);
        let mut files: Vec<PathBuf> = std::fs::read_dir(&dir)
            .map(|rd| rd.filter_map(|e| e.ok().map(|e| e.path())).filter(|p| p.extension().map_or(false, |x| x == "json")).collect())
            .unwrap_or_default();
        files.sort();
        for f in files {
            match read_case::<P::Case>(&f) {
                Ok(case) => {
                    let fails = shared.eval(&case, 0, Some(&mut stats), Phase::Replay);
                    if let Some(fl) = fails.into_iter().next() {
                        violations.push(Violation {
                            sig: fl.sig,
                            msg: fl.msg,
                            case_json: serde_json::to_value(&case).unwrap(),
                            origin: format!("regression file {}", f.display()),
                        });
                    }
                }
                Err(e) => {
                    eprintln!("bad replay file: {}", e);
                    std::process::exit(2);
                }
            }
        }

        // ---- exhaustive block
        let enumerated = prop.enumerate(opts.tier);
        if violations.is_empty() && !enumerated.is_empty() {
            let next = AtomicUsize::new(0);
            let found: Mutex<Vec<(usize, Violation)>> = Mutex::new(vec![]);
            let merged: Mutex<Stats> = Mutex::new(Stats::default());
            std::thread::scope(|s2| {
                for w in 0..nthreads {
                    let shared = &shared;
                    let next = &next;
                    let found = &found;
                    let merged = &merged;
                    let enumerated = &enumerated;
                    s2.spawn(move || {
                        let mut st = Stats::default();
                        loop {
                            if shared.stop.load(Ordering::Relaxed) {
                                break;
                            }
                            let i = next.fetch_add(1, Ordering::Relaxed);
                            if i >= enumerated.len() {
                                break;
                            }
                            let fails = shared.eval(&enumerated[i], w + 1, Some(&mut st), Phase::Enumerated);
                            if let Some(fl) = fails.into_iter().next() {
                                found.lock().unwrap().push((
                                    i,
                                    Violation {
                                        sig: fl.sig,
                                        msg: fl.msg,
                                        case_json: serde_json::to_value(&enumerated[i]).unwrap(),
                                        origin: format!("enumerated case #{}", i),
                                    },
                                ));
                                shared.stop.store(true, Ordering::Relaxed);
                            }
                        }
                        merged.lock().unwrap().merge(st);
                    });
                }
            });
            stats.merge(merged.into_inner().unwrap());
            let mut f = found.into_inner().unwrap();
            f.sort_by_key(|x| x.0);
            if let Some((_, v)) = f.into_iter().next() {
                violations.push(v);
            }
        }

        // ---- random block with shrinking
        let total = ((prop.random_cases(opts.tier) as f64) * opts.scale).ceil() as u32;
        if violations.is_empty() && total > 0 {
            let per = (total + nthreads as u32 - 1) / nthreads as u32;
            let found: Mutex<Vec<(usize, Violation)>> = Mutex::new(vec![]);
            let merged: Mutex<Stats> = Mutex::new(Stats::default());
            let aborted = AtomicU64::new(0);
            std::thread::scope(|s2| {
                for w in 0..nthreads {
                    let shared = &shared;
                    let found = &found;
                    let merged = &merged;
                    let aborted = &aborted;
                    let tier = opts.tier;
                    let seed = mix(mix(opts.seed, fnv(id.as_bytes())), w as u64);
                    s2.spawn(move || {
                        let mut seed_bytes = [0u8; 32];
                        for k in 0..4 {
                            seed_bytes[k * 8..k * 8 + 8].copy_from_slice(&mix(seed, k as u64).to_le_bytes());
                        }
                        let _ = seed_bytes;
                        let cfg = Config {
                            cases: per,
                            failure_persistence: None,
                            rng_seed: RngSeed::Fixed(seed),
                            max_shrink_iters: 20000,
                            max_shrink_time: 45_000,
                            verbose: 0,
                            ..Config::default()
                        };
                        let mut runner = TestRunner::new(cfg);
                        let strat = shared.prop.strategy(tier);
                        let st = std::cell::RefCell::new(Stats::default());
                        let failed = Cell::new(false);
                        let first_fail: std::cell::RefCell<Option<Failure>> = std::cell::RefCell::new(None);
                        let last_fail: std::cell::RefCell<Option<Failure>> = std::cell::RefCell::new(None);
                        let res = runner.run(&strat, |case| {
                            if !failed.get() && shared.stop.load(Ordering::Relaxed) {
                                return Ok(());
                            }
                            let fails = if failed.get() {
                                shared.eval(&case, w + 1, None, Phase::Random)
                            } else {
                                shared.eval(&case, w + 1, Some(&mut st.borrow_mut()), Phase::Random)
                            };
                            if let Some(fl) = fails.into_iter().next() {
                                if !failed.get() {
                                    failed.set(true);
                                    shared.stop.store(true, Ordering::Relaxed);
                                    *first_fail.borrow_mut() = Some(fl.clone());
                                }
                                let sig = fl.sig.clone();
                                *last_fail.borrow_mut() = Some(fl);
                                return Err(TestCaseError::fail(sig));
                            }
                            Ok(())
                        });
                        match res {
                            Ok(()) => {}
                            Err(TestError::Fail(_reason, value)) => {
                                // re-evaluate the minimal case to get its own signature/message
                                let fails = shared.eval(&value, w + 1, None, Phase::Random);
                                let fl = fails
                                    .into_iter()
                                    .next()
                                    .or_else(|| last_fail.borrow().clone())
                                    .or_else(|| first_fail.borrow().clone())
                                    .unwrap_or(Failure { sig: "unknown".into(), msg: String::new() });
                                found.lock().unwrap().push((
                                    w,
                                    Violation {
                                        sig: fl.sig,
                                        msg: fl.msg,
                                        case_json: serde_json::to_value(&value).unwrap(),
                                        origin: format!("random block, worker {} (shrunk)", w),
                                    },
                                ));
                            }
                            Err(TestError::Abort(r)) => {
                                eprintln!("proptest aborted: {}", r);
                                aborted.fetch_add(1, Ordering::Relaxed);
                            }
                        }
                        merged.lock().unwrap().merge(st.into_inner());
                    });
                }
            });
            stats.merge(merged.into_inner().unwrap());
            let mut f = found.into_inner().unwrap();
            f.sort_by_key(|x| x.0);
            if let Some((_, v)) = f.into_iter().next() {
                violations.push(v);
            }
            if aborted.load(Ordering::Relaxed) > 0 && violations.is_empty() {
                done.store(true, Ordering::Relaxed);
                println!("INCONCLUSIVE property={} generator aborted", id);
                std::process::exit(2);
            }
        }
        done.store(true, Ordering::Relaxed);
    });

    // ---- report
    let wall = t0.elapsed().as_secs_f64();
    let mut replay_paths = vec![];
    for v in &violations {
        let p = write_replay(&opts.root, id, v);
        println!("  failure {} ({}): {}", v.sig, v.origin, v.msg);
        println!("  minimal case: {}", serde_json::to_string(&v.case_json).unwrap_or_default());
        replay_paths.push(p);
    }
    if !opts.no_evidence {
        let mut samples = stats.samples.clone();
        if let Some(l) = &stats.last_nontrivial {
            samples.push(l.clone());
        }
        if samples.is_empty() {
            samples.push(serde_json::json!("no non-trivial case was generated"));
        }
        let ev = serde_json::json!({
            "property_id": id,
            "tier": opts.tier.name(),
            "seed": opts.seed,
            "level": prop.level(),
            "coverage": {
                "evaluations": stats.evaluations,
                "distinct_nontrivial": stats.nontrivial.len(),
                "nontrivial_total": stats.nontrivial_total,
                "rule": prop.rule(),
                "samples": samples,
                "enumerated_cases": stats.enumerated,
                "random_cases": stats.random,
                "regression_cases": stats.replayed,
                "exhaustive": false,
                "class_histogram": stats.classes,
                "known_finding_hits": stats.known_hits,
                "api_calls": stats.api_calls,
                "threads": nthreads,
                "extra": prop.extra_evidence(&opts.root),
            },
            "assumptions": prop.assumptions(),
            "wall_s": wall,
            "violations": violations.len(),
        });
        let dir = opts.root.join("evidence");
        let _ = std::fs::create_dir_all(&dir);
        let _ = std::fs::write(dir.join(format!("{}.json", id)), serde_json::to_string_pretty(&ev).unwrap());
        if opts.tier == Tier::Thorough {
            // keep a copy of the deep run next to the per-change evidence
            let tdir = dir.join("thorough");
            let _ = std::fs::create_dir_all(&tdir);
            let _ = std::fs::write(tdir.join(format!("{}.json", id)), serde_json::to_string_pretty(&ev).unwrap());
        }
    }
    for k in &known {
        let n = stats.known_hits.get(&k.signature).copied().unwrap_or(0);
        println!("KNOWN-FINDING: property={} {} [signature={} hits={}]", id, k.what, k.signature, n);
    }
    println!(
        "{} {}: {} cases ({} enumerated, {} random, {} regression), {} distinct non-trivial, {} api calls, {:.1} s",
        id,
        opts.tier.name(),
        stats.evaluations,
        stats.enumerated,
        stats.random,
        stats.replayed,
        stats.nontrivial.len(),
        stats.api_calls,
        wall
    );
    if violations.is_empty() {
        0
    } else {
        for p in replay_paths {
            println!("VIOLATION property={} replay={}", id, p.display());
        }
        1
    }
}

/// helper for strategies: monotone index mapping so that shrinking moves to the first element
pub fn idx(raw: u16, len: usize) -> usize {
    if len == 0 {
        0
    } else {
        ((raw as usize) * len) >> 16
    }
}

pub fn boxed<S: Strategy + 'static>(s: S) -> BoxedStrategy<S::Value> {
    s.boxed()
}

/// statistics left by scripts/fuzz_tier.sh (thorough tiers only); Null when the stage did not run
pub fn fuzz_stats(root: &Path, target: &str) -> serde_json::Value {
    let p = root.join("work").join(format!("fuzz-stats-{}.json", target));
    match std::fs::read_to_string(&p) {
        Ok(t) => {
            let _ = std::fs::remove_file(&p);
            serde_json::json!({ "coverage_guided_stage": serde_json::from_str::<serde_json::Value>(&t).unwrap_or(serde_json::Value::Null) })
        }
        Err(_) => serde_json::Value::Null,
    }
}
