//! Name-type independence. The library is generic in the node-name type `T`; every property is
//! stated for graphs, not for `String` names. This module runs a table of calls twice on the same
//! abstract graph — once with `String` names (whose results the calling property has verified
//! against its oracle) and once with `Key`, a user-defined type that meets the library's trait
//! bounds as weakly as the language allows:
//!
//! * `Display` is lossy (several keys print alike) — nothing requires labels to be unique;
//! * `Hash` collides heavily (only three bits are hashed) — still consistent with `Eq`;
//! * `Ord` orders by a field that is unrelated to the insertion order.
//!
//! Results are mapped back to node indices and must agree (floats within a relative 1e-9: sums may
//! be taken in another order). Only order-independent results are compared (sets, maps, sorted
//! path lists).

use crate::core::*;
use crate::graphcase::NormGraph;
use graphrs::algorithms::centrality::{betweenness::betweenness_centrality, closeness::closeness_centrality, degree::degree_centrality};
use graphrs::algorithms::shortest_path::dijkstra;
use graphrs::algorithms::{cluster, components};
use graphrs::{Edge, Graph, GraphSpecs, Node};
use std::collections::{BTreeMap, BTreeSet, HashMap, HashSet};
use std::fmt::{Debug, Display};
use std::hash::{Hash, Hasher};
use std::sync::Arc;

#[derive(Clone, Debug, PartialEq, Eq, PartialOrd, Ord)]
pub struct Key {
    /// orders the keys (unrelated to insertion order)
    pub rank: u16,
    pub id: u16,
}

impl Display for Key {
    fn fmt(&self, f: &mut std::fmt::Formatter<'_>) -> std::fmt::Result {
        // a label, not an identifier: only four distinct labels exist
        write!(f, "station {}", self.id % 4)
    }
}

impl Hash for Key {
    fn hash<H: Hasher>(&self, state: &mut H) {
        (self.id & 7).hash(state);
    }
}

pub fn key_of(i: usize) -> Key {
    Key { rank: ((i * 37 + 11) % 257) as u16, id: i as u16 }
}

/// A second alternative name type: `i64` at the extremes of its range (order by value is unrelated
/// to insertion order; negative values; values that do not survive a round trip through f64 or a
/// narrower integer).
pub fn int_key_of(i: usize) -> i64 {
    const SPECIAL: [i64; 8] = [i64::MIN, -1, 0, i64::MAX, 1, -(1 << 53) - 1, (1 << 53) + 1, i32::MIN as i64 - 1];
    if i < SPECIAL.len() {
        SPECIAL[i]
    } else {
        // odd multiplier: a bijection on i64; the few special values are not of this form for i < 2^16
        (i as i64).wrapping_mul(0x9E37_79B9_7F4A_7C15u64 as i64)
    }
}

pub trait Name: Hash + Eq + Clone + Ord + Display + Debug + Send + Sync {}
impl<T: Hash + Eq + Clone + Ord + Display + Debug + Send + Sync> Name for T {}

#[derive(Clone, Copy, PartialEq, Eq, Debug)]
pub enum Group {
    Components,
    Paths,
    Betweenness,
    Closeness,
    Degrees,
    Cluster,
}

/// one canonical result: a structural part and a float part
#[derive(Clone, Debug)]
pub struct Canon {
    pub api: String,
    pub s: String,
    pub f: Vec<f64>,
}

fn specs_of(ng: &NormGraph) -> GraphSpecs {
    ng.spec().to_specs()
}

pub fn build_generic<T: Name>(ng: &NormGraph, mk: &dyn Fn(usize) -> T) -> Graph<T, i32> {
    let mut g: Graph<T, i32> = Graph::new(specs_of(ng));
    for i in &ng.order {
        g.add_node(Node::from_name_and_attributes(mk(*i), *i as i32));
    }
    for (i, j, w) in &ng.edges {
        let e: Arc<Edge<T, i32>> = if w.is_nan() { Edge::new(mk(*i), mk(*j)) } else { Edge::with_weight(mk(*i), mk(*j), *w) };
        g.add_edge(e).unwrap_or_else(|e| panic!("harness bug: normalised edge rejected: {:?}", e.kind));
    }
    g
}

fn err_kind(e: &graphrs::Error) -> String {
    format!("Err({:?})", e.kind)
}

/// Runs the calls of `group`; `idx` maps a name back to its node index.
pub fn table<T: Name>(g: &Graph<T, i32>, ng: &NormGraph, mk: &dyn Fn(usize) -> T, group: Group) -> Vec<Canon> {
    let n = ng.n;
    let idx: HashMap<T, usize> = (0..n).map(|i| (mk(i), i)).collect();
    let ix = |t: &T| -> usize { *idx.get(t).unwrap_or(&usize::MAX) };
    let sets = |v: &[HashSet<T>]| -> String {
        // a multiset of sets: a component must not be listed twice, nor dropped
        let mut l: Vec<BTreeSet<usize>> = v.iter().map(|c| c.iter().map(&ix).collect()).collect();
        l.sort();
        format!("{:?}", l)
    };
    let fmap = |m: &HashMap<T, f64>| -> (String, Vec<f64>) {
        let b: BTreeMap<usize, f64> = m.iter().map(|(k, v)| (ix(k), *v)).collect();
        (format!("{:?}", b.keys().collect::<Vec<_>>()), b.values().copied().collect())
    };
    let umap = |m: &HashMap<T, usize>| -> String { format!("{:?}", m.iter().map(|(k, v)| (ix(k), *v)).collect::<BTreeMap<_, _>>()) };
    let mut out: Vec<Canon> = vec![];
    let mut push = |api: String, s: String, f: Vec<f64>| out.push(Canon { api, s, f });
    let sample: Vec<usize> = if n <= 12 { (0..n).collect() } else { vec![0, n / 2, n - 1] };
    match group {
        Group::Components => {
            match components::connected_components(g) {
                Ok(v) => push("connected_components".into(), sets(&v), vec![]),
                Err(e) => push("connected_components".into(), err_kind(&e), vec![]),
            }
            match components::number_of_connected_components(g) {
                Ok(v) => push("number_of_connected_components".into(), format!("{}", v), vec![]),
                Err(e) => push("number_of_connected_components".into(), err_kind(&e), vec![]),
            }
            match components::weakly_connected_components(g) {
                Ok(v) => push("weakly_connected_components".into(), sets(&v), vec![]),
                Err(e) => push("weakly_connected_components".into(), err_kind(&e), vec![]),
            }
            match components::strongly_connected_components(g) {
                Ok(v) => push("strongly_connected_components".into(), sets(&v), vec![]),
                Err(e) => push("strongly_connected_components".into(), err_kind(&e), vec![]),
            }
            for i in &sample {
                let x = mk(*i);
                match components::node_connected_component(g, &x) {
                    Ok(v) => push(format!("node_connected_component[{}]", i), format!("{:?}", v.iter().map(&ix).collect::<BTreeSet<_>>()), vec![]),
                    Err(e) => push(format!("node_connected_component[{}]", i), err_kind(&e), vec![]),
                }
                let b = g.breadth_first_search(&x);
                let set: BTreeSet<usize> = b.iter().map(&ix).collect();
                push(format!("breadth_first_search[{}]", i), format!("first={:?} len={} {:?}", b.first().map(&ix), b.len(), set), vec![]);
            }
            for k in [1usize, 2, 3] {
                let parts = components::bfs_equal_size_partitions(g, k);
                // order-independent facts only: a cover without repeats
                let mut all: Vec<usize> = parts.iter().flat_map(|p| p.iter().map(&ix)).collect();
                all.sort();
                push(format!("bfs_equal_size_partitions[{}]", k), format!("covers_each_node_once={}", all == (0..n).collect::<Vec<_>>()), vec![]);
            }
        }
        Group::Paths => {
            for weighted in if ng.weighted { vec![false, true] } else { vec![false] } {
                for i in &sample {
                    match dijkstra::single_source(g, weighted, mk(*i), None, None, false, true) {
                        Err(e) => push(format!("single_source[{},{}]", weighted, i), err_kind(&e), vec![]),
                        Ok(m) => {
                            let b: BTreeMap<usize, (f64, Vec<Vec<usize>>)> = m
                                .iter()
                                .map(|(k, v)| {
                                    let mut ps: Vec<Vec<usize>> = v.paths.iter().map(|p| p.iter().map(&ix).collect()).collect();
                                    ps.sort();
                                    (ix(k), (v.distance, ps))
                                })
                                .collect();
                            push(format!("single_source[{},{}]", weighted, i), format!("{:?}", b.iter().map(|(k, v)| (*k, &v.1)).collect::<Vec<_>>()), b.values().map(|v| v.0).collect());
                        }
                    }
                }
            }
        }
        Group::Betweenness | Group::Closeness => {
            for weighted in if ng.weighted { vec![false, true] } else { vec![false] } {
                for flag in [false, true] {
                    let (name, r) = if group == Group::Betweenness { ("betweenness_centrality", betweenness_centrality(g, weighted, flag)) } else { ("closeness_centrality", closeness_centrality(g, weighted, flag)) };
                    match r {
                        Ok(m) => {
                            let (s, f) = fmap(&m);
                            push(format!("{}[{},{}]", name, weighted, flag), s, f);
                        }
                        Err(e) => push(format!("{}[{},{}]", name, weighted, flag), err_kind(&e), vec![]),
                    }
                }
            }
        }
        Group::Degrees => {
            push("number_of_nodes/number_of_edges".into(), format!("{} {}", g.number_of_nodes(), g.number_of_edges()), vec![g.size(false)]);
            push("get_degree_for_all_nodes".into(), umap(&g.get_degree_for_all_nodes()), vec![]);
            match g.get_in_degree_for_all_nodes() {
                Ok(m) => push("get_in_degree_for_all_nodes".into(), umap(&m), vec![]),
                Err(e) => push("get_in_degree_for_all_nodes".into(), err_kind(&e), vec![]),
            }
            match g.get_out_degree_for_all_nodes() {
                Ok(m) => push("get_out_degree_for_all_nodes".into(), umap(&m), vec![]),
                Err(e) => push("get_out_degree_for_all_nodes".into(), err_kind(&e), vec![]),
            }
            if ng.weighted {
                let (s, f) = fmap(&g.get_weighted_degree_for_all_nodes());
                push("get_weighted_degree_for_all_nodes".into(), s, f);
            }
            let (s, f) = fmap(&degree_centrality(g));
            push("degree_centrality".into(), s, f);
            for i in &sample {
                push(format!("get_node_degree[{}]", i), format!("{:?} {:?} {:?}", g.get_node_degree(mk(*i)), g.get_node_in_degree(mk(*i)), g.get_node_out_degree(mk(*i))), vec![]);
            }
            // the edge list itself, orientation-insensitive when undirected
            let mut es: Vec<(usize, usize, u64)> = g
                .get_all_edges()
                .iter()
                .map(|e| {
                    let (a, b) = (ix(&e.u), ix(&e.v));
                    let (a, b) = if !ng.directed && a > b { (b, a) } else { (a, b) };
                    (a, b, crate::model::wbits(e.weight))
                })
                .collect();
            es.sort();
            push("get_all_edges".into(), format!("{:?}", es), vec![]);
        }
        Group::Cluster => {
            let subset: Vec<T> = (0..n).filter(|i| i % 2 == 0).map(mk).collect();
            for weighted in if ng.weighted { vec![false, true] } else { vec![false] } {
                for names in [None, Some(&subset[..])] {
                    let tag = format!("[{},{}]", weighted, names.is_some());
                    match cluster::clustering(g, weighted, names) {
                        Ok(m) => {
                            let (s, f) = fmap(&m);
                            push(format!("clustering{}", tag), s, f);
                        }
                        Err(e) => push(format!("clustering{}", tag), err_kind(&e), vec![]),
                    }
                    match cluster::average_clustering(g, weighted, names, true) {
                        Ok(v) => push(format!("average_clustering{}", tag), format!("nan={}", v.is_nan()), if v.is_nan() { vec![] } else { vec![v] }),
                        Err(e) => push(format!("average_clustering{}", tag), err_kind(&e), vec![]),
                    }
                }
            }
            for names in [None, Some(&subset[..])] {
                let tag = format!("[{}]", names.is_some());
                match cluster::triangles(g, names) {
                    Ok(m) => push(format!("triangles{}", tag), umap(&m), vec![]),
                    Err(e) => push(format!("triangles{}", tag), err_kind(&e), vec![]),
                }
                match cluster::generalized_degree(g, names) {
                    Ok(m) => push(
                        format!("generalized_degree{}", tag),
                        format!("{:?}", m.iter().map(|(k, v)| (ix(k), v.iter().map(|(a, b)| (*a, *b)).collect::<BTreeMap<_, _>>())).collect::<BTreeMap<_, _>>()),
                        vec![],
                    ),
                    Err(e) => push(format!("generalized_degree{}", tag), err_kind(&e), vec![]),
                }
                let (s, f) = fmap(&cluster::square_clustering(g, names));
                push(format!("square_clustering{}", tag), s, f);
            }
            match cluster::transitivity(g) {
                Ok(v) => push("transitivity".into(), String::new(), vec![v]),
                Err(e) => push("transitivity".into(), err_kind(&e), vec![]),
            }
        }
    }
    out
}

/// The differential check: `String` names (the graph the property has just verified) against `Key`.
pub fn check_name_type_independence(ng: &NormGraph, group: Group, out: &mut Outcome) {
    if ng.n == 0 || ng.n > 256 {
        return;
    }
    let names = ng.names.clone();
    let mk_s = move |i: usize| names[i].clone();
    let gs = build_generic::<String>(ng, &mk_s);
    let ts = table(&gs, ng, &mk_s, group);
    let r = guard(|| {
        let gk = build_generic::<Key>(ng, &key_of);
        table(&gk, ng, &key_of, group)
    });
    out.class("name_type_independence_checked");
    let tk = match r {
        Ok(t) => t,
        Err(p) => {
            out.fail(format!("name_type[{:?}]/panic/{}", group, panic_class(&p)), format!("with a user-defined name type: {}", p));
            return;
        }
    };
    let ti = match guard(|| {
        let gi = build_generic::<i64>(ng, &int_key_of);
        table(&gi, ng, &int_key_of, group)
    }) {
        Ok(t) => t,
        Err(p) => {
            out.fail(format!("name_type[{:?}]/panic/{}", group, panic_class(&p)), format!("with i64 names at the extremes of the range: {}", p));
            return;
        }
    };
    out.api_calls += (ts.len() + tk.len() + ti.len()) as u64;
    for (what, other) in [("a user-defined name type (lossy Display, colliding Hash)", &tk), ("i64 names at the extremes of the range", &ti)] {
        for (a, b) in ts.iter().zip(other.iter()) {
            debug_assert_eq!(a.api, b.api);
            let base = a.api.split('[').next().unwrap_or(&a.api).to_string();
            if a.s != b.s {
                out.fail(format!("{}/name_type/structure_differs", base), format!("{}: String names give {} but {} gives {}", a.api, trunc(&a.s), what, trunc(&b.s)));
                return;
            }
            if a.f.len() != b.f.len() || a.f.iter().zip(&b.f).any(|(x, y)| !(approx(*x, *y, 1e-9, 1e-12) || (x.is_nan() && y.is_nan()) || x == y)) {
                out.fail(format!("{}/name_type/values_differ", base), format!("{}: String names give {:?} but {} gives {:?}", a.api, a.f, what, b.f));
                return;
            }
        }
    }
}

/// Are all sums of distinct edge weights exactly representable (so that ties between paths do not
/// depend on the order in which floating-point sums are taken)?
pub fn sums_exact(ng: &NormGraph) -> bool {
    let mut q = i32::MAX;
    let mut total = 0.0f64;
    for (_, _, w) in &ng.edges {
        if w.is_nan() || *w == 0.0 {
            continue;
        }
        if !w.is_finite() || *w < 0.0 {
            return false;
        }
        let bits = w.to_bits();
        let exp = ((bits >> 52) & 0x7ff) as i32;
        let man = if exp == 0 { bits & ((1u64 << 52) - 1) } else { (bits & ((1u64 << 52) - 1)) | (1u64 << 52) };
        let e = if exp == 0 { -1074 } else { exp - 1075 };
        q = q.min(e + man.trailing_zeros() as i32);
        total += *w;
    }
    q == i32::MAX || total / 2f64.powi(q) < 2f64.powi(52)
}

/// Called at the end of a property's check: every graph of at most 12 nodes and one in eight of
/// the graphs of up to 64 nodes (34 for the path-returning functions).
pub fn maybe_check(ng: &NormGraph, group: Group, selector: u64, out: &mut Outcome) {
    if !out.failures.is_empty() || ng.n == 0 {
        return;
    }
    let cap = if group == Group::Paths { 34 } else { 64 };
    if ng.n > cap || (ng.n > 12 && selector % 8 != 0) {
        return;
    }
    if matches!(group, Group::Paths | Group::Betweenness | Group::Closeness) && ng.weighted && !sums_exact(ng) {
        return;
    }
    check_name_type_independence(ng, group, out);
}

/// C12: is_partition / modularity on a family of blocks given by node index (None = a name that is
/// not in the graph; an index may repeat within a block only through separate blocks).
pub fn check_partition_name_type(ng: &NormGraph, fam: &[Vec<Option<usize>>], weighted: bool, resolution: Option<f64>, out: &mut Outcome) {
    use graphrs::algorithms::community::partitions;
    if !out.failures.is_empty() || ng.n == 0 || ng.n > 64 {
        return;
    }
    fn run<T: Name>(ng: &NormGraph, mk: &dyn Fn(usize) -> T, foreign: T, fam: &[Vec<Option<usize>>], weighted: bool, resolution: Option<f64>) -> (bool, Result<f64, String>) {
        let g = build_generic::<T>(ng, mk);
        let communities: Vec<HashSet<T>> = fam.iter().map(|b| b.iter().map(|x| x.map_or(foreign.clone(), mk)).collect()).collect();
        (partitions::is_partition(&g, &communities), partitions::modularity(&g, &communities, weighted, resolution).map_err(|e| err_kind(&e)))
    }
    let names = ng.names.clone();
    let mk_s = move |i: usize| names[i].clone();
    let a = run::<String>(ng, &mk_s, crate::model::ABSENT.to_string(), fam, weighted, resolution);
    let b = match guard(|| run::<Key>(ng, &key_of, Key { rank: 999, id: 9999 }, fam, weighted, resolution)) {
        Ok(b) => b,
        Err(p) => {
            out.fail(format!("name_type[Partitions]/panic/{}", panic_class(&p)), format!("with a user-defined name type: {}", p));
            return;
        }
    };
    out.api_calls += 4;
    out.class("name_type_independence_checked");
    out.check(a.0 == b.0, "is_partition/name_type/structure_differs", || format!("String names: {} user-defined name type: {} for blocks {:?}", a.0, b.0, fam));
    match (&a.1, &b.1) {
        (Ok(x), Ok(y)) => {
            out.check(approx(*x, *y, 1e-9, 1e-12) || (x.is_nan() && y.is_nan()), "modularity/name_type/values_differ", || format!("String names: {} user-defined name type: {}", x, y));
        }
        (Err(x), Err(y)) => {
            out.check(x == y, "modularity/name_type/structure_differs", || format!("{} vs {}", x, y));
        }
        (x, y) => out.fail("modularity/name_type/structure_differs", format!("String names: {:?} user-defined name type: {:?}", x, y)),
    }
}

/// C13 with a user-defined node-name type: the result may legitimately differ from the
/// String-named run (ties are broken by name order), so the statement's own validity conditions
/// are checked: every level is a partition of the node set, each level coarsens the previous one,
/// and (single-edge graphs) the modularity computed by the oracle never decreases.
pub fn check_louvain_name_type(ng: &NormGraph, weighted: bool, res: Option<f64>, thr: Option<f64>, seed: u64, budget: u64, modularity: &dyn Fn(&[Vec<usize>]) -> f64, out: &mut Outcome) {
    use graphrs::algorithms::community::louvain;
    if !out.failures.is_empty() || ng.n == 0 || ng.n > 64 {
        return;
    }
    let g = build_generic::<Key>(ng, &key_of);
    graphrs::verif::set_step_budget(Some(budget));
    let r = guard(|| louvain::louvain_partitions(&g, weighted, res, thr, Some(seed)));
    graphrs::verif::set_step_budget(None);
    out.api_calls += 1;
    out.class("name_type_independence_checked");
    let levels = match r {
        Err(p) => {
            let class = if p.contains(graphrs::verif::STEP_BUDGET_EXHAUSTED) { "step_budget".to_string() } else { panic_class(&p) };
            out.fail(format!("louvain_partitions/name_type/panic/{}", class), format!("with a user-defined name type: {}", p));
            return;
        }
        Ok(Err(e)) => {
            out.fail(format!("louvain_partitions/name_type/error/{:?}", e.kind), e.message.clone());
            return;
        }
        Ok(Ok(l)) => l,
    };
    if levels.is_empty() {
        out.fail("louvain_partitions/name_type/levels/empty_list", "no level returned");
        return;
    }
    let mut idx_levels: Vec<Vec<BTreeSet<usize>>> = vec![];
    for (k, l) in levels.iter().enumerate() {
        let mut seen = vec![0usize; ng.n];
        let mut lv = vec![];
        for c in l {
            if c.is_empty() {
                out.fail("louvain_partitions/name_type/partition/empty_community", format!("level {}", k));
                return;
            }
            let mut set = BTreeSet::new();
            for x in c {
                let i = x.id as usize;
                if i >= ng.n || key_of(i) != *x {
                    out.fail("louvain_partitions/name_type/partition/foreign_node", format!("level {}: {:?}", k, x));
                    return;
                }
                seen[i] += 1;
                set.insert(i);
            }
            lv.push(set);
        }
        if seen.iter().any(|c| *c != 1) {
            out.fail("louvain_partitions/name_type/partition/not_a_partition", format!("level {}: node multiplicities {:?}", k, seen));
            return;
        }
        idx_levels.push(lv);
    }
    for k in 1..idx_levels.len() {
        for c in &idx_levels[k - 1] {
            if !idx_levels[k].iter().any(|d| c.is_subset(d)) {
                out.fail("louvain_partitions/name_type/nested/community_split_at_next_level", format!("level {} community {:?} is not inside a community of level {}", k - 1, c, k));
                return;
            }
        }
    }
    if !ng.multi {
        let singles: Vec<Vec<usize>> = (0..ng.n).map(|i| vec![i]).collect();
        let mut prev = modularity(&singles);
        for (k, l) in idx_levels.iter().enumerate() {
            let fam: Vec<Vec<usize>> = l.iter().map(|c| c.iter().copied().collect()).collect();
            let q = modularity(&fam);
            if q < prev - 1e-9 {
                out.fail("louvain_partitions/name_type/modularity/decreases", format!("level {}: modularity {} after {}", k, q, prev));
                return;
            }
            prev = q;
        }
    }
}

fn trunc(s: &str) -> String {
    if s.len() > 300 {
        format!("{}...", &s[..300])
    } else {
        s.to_string()
    }
}
