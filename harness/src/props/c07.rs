//! C07 — parallel execution is unobservable: results do not depend on threads or schedule.

use crate::core::*;
use crate::engine::*;
use crate::graphcase::*;
use crate::props::c17::pool_of;
use graphrs::algorithms::centrality::{betweenness::betweenness_centrality, closeness::closeness_centrality};
use graphrs::algorithms::shortest_path::{dijkstra, ShortestPathInfo};
use proptest::prelude::*;
use proptest::strategy::BoxedStrategy;
use serde::{Deserialize, Serialize};
use std::collections::HashMap;
use std::path::Path;

#[derive(Clone, Debug, Serialize, Deserialize)]
pub struct ParCase {
    pub g: GraphCase,
    pub sel: u64,
    /// when set, `g` is ignored and a sparse graph with this many nodes (61..=1200) is generated
    /// procedurally from `sel` (sizes above any plausible internal threshold)
    #[serde(default)]
    pub big_n: Option<u16>,
    /// long-lived-thread protocol (see `check_soak`): number of calls after which a counter of
    /// that width would wrap (2^8, 2^16)
    #[serde(default)]
    pub soak: Option<u32>,
}

/// procedurally generated sparse graph: ring + 2 pseudo-random chords per node, non-dyadic weights
fn big_graph(n: usize, seed: u64, directed: bool, weighted: bool) -> crate::model::G {
    use crate::model::{mk_edge, mk_node, SpecBits, G};
    let mut g = G::new(SpecBits::kind(directed, false, false).to_specs());
    for i in 0..n {
        g.add_node(mk_node(&node_name_big(i), None));
    }
    let mut s = seed | 1;
    let mut seen = std::collections::HashSet::new();
    let mut add = |g: &mut G, a: usize, b: usize, s: u64| {
        if a == b {
            return;
        }
        let key = if !directed && a > b { (b, a) } else { (a, b) };
        if !seen.insert(key) {
            return;
        }
        let w = if weighted { 0.1 + ((s >> 20) % 50) as f64 * 0.137 } else { f64::NAN };
        g.add_edge(mk_edge(&node_name_big(a), &node_name_big(b), w)).expect("edge");
    };
    for i in 0..n {
        s = mix(s, i as u64);
        add(&mut g, i, (i + 1) % n, s);
        for _ in 0..2 {
            s = mix(s, 0x77);
            add(&mut g, i, (s % n as u64) as usize, s);
        }
    }
    g
}

fn node_name_big(i: usize) -> String {
    format!("v{:04}", (i * 7919 + 13) % 10007)
}

pub struct C07 {
    pub tier: Tier,
}

fn canon_sp(m: &HashMap<String, ShortestPathInfo<String>>) -> String {
    let mut ks: Vec<&String> = m.keys().collect();
    ks.sort();
    let mut s = String::new();
    for k in ks {
        s.push_str(&format!("{}:{:x}:{:?};", k, m[k].distance.to_bits(), m[k].paths));
    }
    s
}

fn canon_pairs(m: &HashMap<String, HashMap<String, ShortestPathInfo<String>>>) -> String {
    let mut ks: Vec<&String> = m.keys().collect();
    ks.sort();
    ks.iter().map(|k| format!("[{}=>{}]", k, canon_sp(&m[*k]))).collect()
}

fn canon_map(m: &HashMap<String, f64>) -> String {
    let mut ks: Vec<&String> = m.keys().collect();
    ks.sort();
    ks.iter().map(|k| format!("{}:{:x};", k, m[*k].to_bits())).collect()
}

fn canon_involving(v: &[ShortestPathInfo<String>]) -> String {
    let mut items: Vec<String> = v.iter().map(|i| format!("{:x}:{:?}", i.distance.to_bits(), i.paths)).collect();
    items.sort();
    items.join("|")
}

/// the five functions, each reduced to a canonical string (bit-exact floats, ordered path lists)
fn run_all(graph: &crate::model::G, weighted: bool, sources: &[String], node: &str) -> Result<Vec<(&'static str, String)>, String> {
    guard(|| {
        let mut out = vec![];
        out.push(("all_pairs", dijkstra::all_pairs(graph, weighted, None, None, false, true).map(|m| canon_pairs(&m)).unwrap_or_else(|e| format!("Err {:?}", e.kind))));
        out.push(("all_pairs_distances_only", dijkstra::all_pairs(graph, weighted, None, None, false, false).map(|m| canon_pairs(&m)).unwrap_or_else(|e| format!("Err {:?}", e.kind))));
        out.push(("multi_source", dijkstra::multi_source(graph, weighted, sources.to_vec(), None, None, false, true).map(|m| canon_pairs(&m)).unwrap_or_else(|e| format!("Err {:?}", e.kind))));
        out.push(("get_all_shortest_paths_involving", canon_involving(&dijkstra::get_all_shortest_paths_involving(graph, node.to_string(), weighted))));
        // the option-carrying variants take the full algorithm instead of the distance-only one
        out.push(("all_pairs_with_target", dijkstra::all_pairs(graph, weighted, Some(node.to_string()), None, false, true).map(|m| canon_pairs(&m)).unwrap_or_else(|e| format!("Err {:?}", e.kind))));
        out.push(("all_pairs_with_cutoff_first_only", dijkstra::all_pairs(graph, weighted, None, Some(2.5), true, true).map(|m| canon_pairs(&m)).unwrap_or_else(|e| format!("Err {:?}", e.kind))));
        out.push(("multi_source_with_target_no_paths", dijkstra::multi_source(graph, weighted, sources.to_vec(), Some(node.to_string()), None, false, false).map(|m| canon_pairs(&m)).unwrap_or_else(|e| format!("Err {:?}", e.kind))));
        for norm in [false, true] {
            out.push((if norm { "betweenness_centrality_normalized" } else { "betweenness_centrality" }, betweenness_centrality(graph, weighted, norm).map(|m| canon_map(&m)).unwrap_or_else(|e| format!("Err {:?}", e.kind))));
        }
        for wf in [false, true] {
            out.push((if wf { "closeness_centrality_wf" } else { "closeness_centrality" }, closeness_centrality(graph, weighted, wf).map(|m| canon_map(&m)).unwrap_or_else(|e| format!("Err {:?}", e.kind))));
        }
        out
    })
}

fn busy(us: u64) {
    let t = std::time::Instant::now();
    let mut x = 0u64;
    while t.elapsed().as_micros() < us as u128 {
        x = x.wrapping_mul(6364136223846793005).wrapping_add(1);
        std::hint::black_box(x);
    }
}

impl C07 {
    /// The result of a call must not depend on what the executing thread did before. A worker of a
    /// long-lived pool serves: one call on the 32-node graph, then a long run of calls on a 5-node
    /// graph - long enough that a per-thread counter of `width` values (an epoch, a generation
    /// mark, a slot index) comes round again - and then the calls on the 32-node graph whose
    /// results are compared with those of a brand-new single-thread pool. The run is sized so that
    /// the wrap-around point falls inside the last calls whatever a call counts (searches,
    /// sources, calls).
    fn check_soak(&self, case: &ParCase, width: usize) -> Outcome {
        let mut out = Outcome::new();
        let ng = case.g.norm();
        let big = ng.build();
        let weighted = ng.weighted;
        let small_case = GraphCase { kind: case.g.kind, n: 5, perm: 0, shape: 1, edges: vec![], wmode: case.g.wmode, big_n: 0, big_seed: 0 };
        let sng = small_case.norm();
        let small = sng.build();
        let src_big = ng.names[8 % ng.n.max(1)].clone();
        let src_small = sng.names[0].clone();
        let sources: Vec<String> = ng.names.iter().step_by(3).cloned().collect();
        let node = ng.names[ng.n - 1].clone();
        let fresh = || rayon::ThreadPoolBuilder::new().num_threads(1).build().expect("pool");
        let reference = match fresh().install(|| run_all(&big, weighted, &sources, &node)) {
            Ok(r) => r,
            Err(p) => {
                out.fail(format!("serial/panic/{}", panic_class(&p)), p);
                return out;
            }
        };
        // what one small call may advance a per-thread counter by: 1 (per call or per search of
        // single_source) or 5 (per source of the centralities / all_pairs on 5 nodes)
        type Small<'a> = (&'static str, usize, Box<dyn Fn() + Sync + 'a>);
        let smalls: Vec<Small> = vec![
            ("single_source", 1, Box::new(|| {
                let _ = dijkstra::single_source(&small, weighted, src_small.clone(), None, None, false, true);
            })),
            ("single_source_distances_only", 1, Box::new(|| {
                let _ = dijkstra::single_source(&small, weighted, src_small.clone(), None, None, false, false);
            })),
            ("betweenness_centrality", 5, Box::new(|| {
                let _ = betweenness_centrality(&small, weighted, false);
            })),
            ("closeness_centrality", 5, Box::new(|| {
                let _ = closeness_centrality(&small, weighted, false);
            })),
        ];
        for (name, per_call, f) in &smalls {
            // Only the *first* search on the 32-node graph after the long run can meet a stale
            // value (every search on it refreshes all its entries), so the length of the run has to
            // be exact: the counter has `width` or `width - 1` values and the 32-node search itself
            // may or may not count. All run lengths from (width - 4) to (width + 1) steps are tried.
            let lo = (width - 4) / per_call;
            let hi = (width + 1 + per_call - 1) / per_call;
            let forced = std::env::var("VERIF_SOAK_CALLS").ok().and_then(|v| v.parse::<usize>().ok());
            for calls in lo..=hi {
                let calls = forced.unwrap_or(calls);
                let pool = fresh();
                let got = pool.install(|| {
                    // 40 small calls first: the counter is not at its initial value when the
                    // 32-node graph is seen, and the wrap-around falls into the small calls
                    for _ in 0..40 {
                        f();
                    }
                    let _ = dijkstra::single_source(&big, weighted, src_big.clone(), None, None, false, true);
                    let _ = betweenness_centrality(&big, weighted, false);
                    let _ = closeness_centrality(&big, weighted, false);
                    for _ in 0..calls {
                        f();
                    }
                    run_all(&big, weighted, &sources, &node)
                });
                out.api_calls += calls as u64 + reference.len() as u64;
                match got {
                    Err(p) => out.fail(format!("after_long_run/panic/{}", panic_class(&p)), format!("after {} calls of {} on one thread: {}", calls, name, p)),
                    Ok(got) => {
                        for ((api, a), (_, b)) in reference.iter().zip(got.iter()) {
                            if a != b {
                                out.fail(format!("{}/depends_on_thread_history/after_about_{}_small_calls", api, width), format!("a worker thread that served {} calls of {} on a 5-node graph returns a different {} for the {}-node graph than a new thread", calls, name, api, ng.n));
                                return out;
                            }
                        }
                    }
                }
            }
        }
        out.class(format!("long_lived_thread_{}_calls", width));
        out.nontrivial = true;
        out
    }

    /// large graphs: the centralities and distance-only all_pairs (the path-carrying variants would
    /// need gigabytes), pools of 2, 5 and 16 threads against the serial result
    fn check_big(&self, case: &ParCase, n: usize) -> Outcome {
        let mut out = Outcome::new();
        let directed = case.g.kind & 1 == 1;
        let weighted = case.g.wmode == 4;
        let structured = case.g.shape == 13;
        let graph = if structured { case.g.norm().build() } else { big_graph(n, case.sel, directed, weighted) };
        let weighted = if structured { case.g.wmode != 0 } else { weighted };
        let run = |g: &crate::model::G| -> Result<Vec<(&'static str, String)>, String> {
            guard(|| {
                let mut v = vec![];
                v.push(("betweenness_centrality", betweenness_centrality(g, weighted, true).map(|m| canon_map(&m)).unwrap_or_else(|e| format!("Err {:?}", e.kind))));
                v.push(("closeness_centrality", closeness_centrality(g, weighted, true).map(|m| canon_map(&m)).unwrap_or_else(|e| format!("Err {:?}", e.kind))));
                if n <= 1200 {
                    v.push(("all_pairs_distances_only", dijkstra::all_pairs(g, weighted, None, None, false, false).map(|m| canon_pairs(&m)).unwrap_or_else(|e| format!("Err {:?}", e.kind))));
                }
                v
            })
        };
        let reference = match pool_of(1).install(|| run(&graph)) {
            Ok(r) => r,
            Err(p) => {
                out.fail(format!("serial/panic/{}", panic_class(&p)), p);
                return out;
            }
        };
        for threads in [2usize, 5, 16, 64] {
            match pool_of(threads).install(|| run(&graph)) {
                Err(p) => out.fail(format!("parallel/panic/{}", panic_class(&p)), p),
                Ok(got) => {
                    out.api_calls += got.len() as u64;
                    for ((name, a), (_, b)) in reference.iter().zip(got.iter()) {
                        if a != b {
                            out.fail(format!("{}/differs_from_serial/large_graph", name), format!("n = {}, pool of {} threads", n, threads));
                        }
                    }
                }
            }
        }
        out.class("large_graph_61_to_3000_nodes");
        out.class(format!("large_graph_n_above_{}", if n > 2048 { 2048 } else if n > 1024 { 1024 } else if n > 512 { 512 } else if n > 256 { 256 } else if n > 128 { 128 } else { 60 }));
        out.nontrivial = true;
        out
    }
}

impl Prop for C07 {
    type Case = ParCase;
    fn id(&self) -> &'static str {
        "C07"
    }
    fn rule(&self) -> String {
        "graphs of all 8 kinds with 21..=60 nodes (plus, one case in 14, a bundle of 2^52..2^126 equally short routes tied with a single bypass route, and, one case in 14, a procedurally generated sparse graph with a log-uniform size in 61..=3000 on which the centralities (and, up to 1200 nodes, distance-only all_pairs) run in pools of 2, 5 and 16 threads) (random, tie-rich shapes, unweighted / tie-rich / non-dyadic weights so that the order of floating-point additions would matter). For every graph the five functions (all_pairs with and without paths, multi_source on a generated subset, get_all_shortest_paths_involving, all_pairs / multi_source with target, cutoff and first_only, betweenness raw/normalized, closeness with/without WF) run inside rayon pools of every size 1..=16 and of 24, 32 and 64 threads (wider than the graph) entered with install (size 1 takes the serial path and is the reference), each size repeated 2 (quick) / 6 (thorough) times, half of the repetitions with perturbing load (busy tasks spawned into the same pool; the harness itself runs 16 cases at a time on shared pools, which shifts work stealing further); plus 6 scoped threads calling the functions on one &Graph at the same time. Exhaustive block (long-lived-thread protocol): a worker of a single-thread pool serves 40 calls on a 5-node graph, one call of each function on a 32-node graph, then a run of calls on a 5-node graph whose length is each of width - 4 .. width + 1 counter steps (width = 2^8, 2^16; per-call cost 1 or 5 steps), then all functions on the 32-node graph, whose results must equal those of a brand-new thread. Oracle: differential — identical key sets, f64::to_bits equality of every distance and centrality, identical path lists including their order. Non-trivial = n > 20 and the serial result contains a non-integer value or a pair with >= 2 paths; distinct = distinct serialised case.".into()
    }
    fn assumptions(&self) -> Vec<String> {
        vec![
            "rayon's scheduler is not under the harness's control: schedules are sampled by pool size, repetition, contention and load, not enumerated".into(),
            "the order of the Vec returned by get_all_shortest_paths_involving comes from hash-map iteration and is compared as a multiset; the path list inside each entry is compared in order".into(),
        ]
    }
    fn threads(&self) -> usize {
        16
    }
    fn strategy(&self, _tier: Tier) -> BoxedStrategy<ParCase> {
        fn me(n: usize) -> usize {
            n * 2
        }
        let normal = (graph_strategy(&ALL_KINDS, 21, 60, me, &[0, 3, 4, 4, 5, 7], 4), any::<u64>()).prop_map(|(g, sel)| ParCase { g: tame_path_counts(g, 33), sel, big_n: None, soak: None });
        // log-uniform sizes 61..=1200
        let big = (0u16..1000, any::<u64>(), 0u8..4).prop_map(|(r, sel, k)| {
            let n = (61.0 * (3000.0f64 / 61.0).powf(r as f64 / 999.0)).round() as u16;
            ParCase { g: GraphCase { kind: k & 1, n: 0, perm: 0, shape: 0, edges: vec![], wmode: if k & 2 == 2 { 4 } else { 0 }, big_n: 0, big_seed: 0 }, sel, big_n: Some(n), soak: None }
        });
        // a bundle of 2^52 .. 2^126 equally short routes tied with one bypass (shape 13): path-count
        // ratios far below f64 resolution; centralities and distances only
        let bundle = (0u8..2, 107u8..=255, any::<u64>(), prop::sample::select(vec![1u8, 0])).prop_map(|(kind, n, sel, wmode)| ParCase { g: GraphCase { kind, n, perm: 0, shape: 13, edges: vec![], wmode, big_n: 0, big_seed: 0 }, sel, big_n: Some(n as u16), soak: None });
        prop_oneof![12 => normal, 1 => big, 1 => bundle].boxed()
    }
    fn random_cases(&self, tier: Tier) -> u32 {
        tier.pick(160, 2_400)
    }
    fn enumerate(&self, _tier: Tier) -> Vec<ParCase> {
        // the long-lived-thread protocol for counters of 8 and 16 bits, on four kinds of graph
        let mut v = vec![];
        // the bundle-with-bypass graph (60 and 100 stages), both directions
        for (kind, n) in [(0u8, 123u8), (1, 123), (1, 203)] {
            v.push(ParCase { g: GraphCase { kind, n, perm: 0, shape: 13, edges: vec![], wmode: 1, big_n: 0, big_seed: 0 }, sel: n as u64, big_n: Some(n as u16), soak: None });
        }
        for width in [1u32 << 8, 1 << 16] {
            for (kind, wmode) in [(0u8, 0u8), (1, 3), (0, 4), (1, 0)] {
                v.push(ParCase { g: GraphCase { kind, n: 32, perm: 5, shape: 2, edges: vec![(0, 9, 3), (4, 20, 6), (31, 2, 9), (7, 7, 3), (12, 28, 1)], wmode, big_n: 0, big_seed: 0 }, sel: width as u64, big_n: None, soak: Some(width) });
            }
        }
        v
    }
    fn extra_evidence(&self, _root: &Path) -> serde_json::Value {
        // informational static audit: which parallel adaptors does the library use?
        let mut hits = vec![];
        fn walk(dir: &Path, hits: &mut Vec<String>) {
            if let Ok(rd) = std::fs::read_dir(dir) {
                for e in rd.flatten() {
                    let p = e.path();
                    if p.is_dir() {
                        walk(&p, hits);
                    } else if p.extension().map_or(false, |x| x == "rs") {
                        if let Ok(t) = std::fs::read_to_string(&p) {
                            for (i, l) in t.lines().enumerate() {
                                if l.contains("par_iter") || l.contains("ParallelIterator") || l.contains("rayon::") {
                                    hits.push(format!("{}:{}: {}", p.display(), i + 1, l.trim()));
                                }
                            }
                        }
                    }
                }
            }
        }
        walk(Path::new("/repo/src"), &mut hits);
        hits.sort();
        serde_json::json!({ "static_audit_parallel_adaptors": hits })
    }
    fn check(&self, case: &ParCase) -> Outcome {
        if let Some(width) = case.soak {
            return self.check_soak(case, width.clamp(16, 1 << 17) as usize);
        }
        let mut out = Outcome::new();
        crate::props::c08::poison_shortest_path_state(case.sel >> 3, 4);
        if let Some(bn) = case.big_n {
            return self.check_big(case, bn as usize);
        }
        let ng = case.g.norm();
        let graph = ng.build();
        let n = ng.n;
        let weighted = ng.weighted;
        let sources: Vec<String> = (0..n).filter(|i| case.sel >> (i % 64) & 1 == 1).map(|i| ng.names[i].clone()).collect();
        let node = ng.names[(case.sel as usize) % n.max(1)].clone();
        let reference = match pool_of(1).install(|| run_all(&graph, weighted, &sources, &node)) {
            Ok(r) => r,
            Err(p) => {
                out.fail(format!("serial/panic/{}", panic_class(&p)), p);
                return out;
            }
        };
        out.api_calls += reference.len() as u64;
        let reps = self.tier.pick(2, 6);
        for threads in (1..=16usize).chain(crate::props::c17::WIDE_POOLS) {
            for rep in 0..reps {
                let pool = pool_of(threads);
                if rep % 2 == 1 {
                    for _ in 0..threads {
                        pool.spawn(|| busy(150));
                    }
                }
                let got = match pool.install(|| run_all(&graph, weighted, &sources, &node)) {
                    Ok(r) => r,
                    Err(p) => {
                        out.fail(format!("parallel/panic/{}", panic_class(&p)), format!("pool of {}: {}", threads, p));
                        return out;
                    }
                };
                out.api_calls += got.len() as u64;
                for ((name, a), (_, b)) in reference.iter().zip(got.iter()) {
                    if a != b {
                        let d = a.bytes().zip(b.bytes()).position(|(x, y)| x != y).unwrap_or(0);
                        let lo = d.saturating_sub(60);
                        out.fail(
                            format!("{}/differs_from_serial", name),
                            format!("pool of {} threads, repetition {}: ...{} vs serial ...{}", threads, rep, &b[lo..(d + 60).min(b.len())], &a[lo..(d + 60).min(a.len())]),
                        );
                        return out;
                    }
                }
            }
        }
        // concurrent read-only use of one graph from several threads
        let results: Vec<Result<Vec<(&'static str, String)>, String>> = std::thread::scope(|s| {
            let hs: Vec<_> = (0..6).map(|k| { let (g, src, nd) = (&graph, &sources, &node); s.spawn(move || { busy(20 * k as u64); run_all(g, weighted, src, nd) }) }).collect();
            hs.into_iter().map(|h| h.join().unwrap_or_else(|_| Err("thread panicked".into()))).collect()
        });
        for r in results {
            match r {
                Err(p) => out.fail(format!("concurrent_readers/panic/{}", panic_class(&p)), p),
                Ok(got) => {
                    out.api_calls += got.len() as u64;
                    for ((name, a), (_, b)) in reference.iter().zip(got.iter()) {
                        if a != b {
                            out.fail(format!("{}/differs_under_concurrent_readers", name), "result changed while other threads were reading the same graph".to_string());
                        }
                    }
                }
            }
        }
        let non_integer = reference.iter().any(|(name, s)| name.contains("centrality") && s.split(';').any(|e| e.rsplit(':').next().and_then(|h| u64::from_str_radix(h, 16).ok()).map_or(false, |b| f64::from_bits(b).fract() != 0.0)));
        let ties = reference[0].1.contains("], [");
        out.class(format!("kind_{}", ng.spec().label()));
        out.class(format!("wmode_{}", case.g.wmode));
        if ties {
            out.class("has_tie_paths");
        }
        out.nontrivial = n > 20 && (non_integer || ties);
        out
    }
}
