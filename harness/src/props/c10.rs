//! C10 — component functions partition the nodes by the right reachability relation.

use crate::core::*;
use crate::engine::*;
use crate::graphcase::*;
use crate::oracle::*;
use graphrs::algorithms::components;
use proptest::prelude::*;
use proptest::strategy::BoxedStrategy;
use serde::{Deserialize, Serialize};
use std::collections::{BTreeSet, HashSet};

#[derive(Clone, Debug, Serialize, Deserialize)]
pub struct CompCase {
    pub g: GraphCase,
    /// number of parts for bfs_equal_size_partitions is 1 + k % (n + 2)
    pub k: u8,
}

pub struct C10;

fn canon_sets(ng: &NormGraph, sets: &[HashSet<String>]) -> Result<BTreeSet<BTreeSet<usize>>, String> {
    let mut out = BTreeSet::new();
    let mut seen = BTreeSet::new();
    for s in sets {
        if s.is_empty() {
            return Err("empty_set".into());
        }
        let mut c = BTreeSet::new();
        for x in s {
            let Some(i) = ng.index_of(x) else { return Err("foreign_name".into()) };
            if !seen.insert(i) {
                return Err("node_in_two_sets".into());
            }
            c.insert(i);
        }
        out.insert(c);
    }
    if seen.len() != ng.n {
        return Err("node_in_no_set".into());
    }
    Ok(out)
}

/// large graphs: component functions against linear-time oracles (union-find, Kosaraju), inside the
/// default (16-thread) rayon context and inside a pool of 2
/// Shape tag of the fixed wide-level cases: a hub with `big_n` leaves (one breadth-first level of
/// more than 2^16 nodes, not a multiple of any power of two up to 2^14) and a pendant node behind
/// every 89th leaf and behind the last five, reachable through that leaf only.
pub const WIDE: u8 = 253;

fn check_wide(case: &CompCase) -> Outcome {
    let mut out = Outcome::new();
    let leaves = case.g.big_n as usize;
    let directed = case.g.kind & 1 == 1;
    let mut edges = vec![];
    let mut n = 1 + leaves;
    for i in 1..=leaves {
        edges.push((0usize, i, f64::NAN));
    }
    for i in 1..=leaves {
        if i % 89 == 0 || i + 5 > leaves {
            edges.push((i, n, f64::NAN));
            n += 1;
        }
    }
    let ng = NormGraph { directed, multi: false, loops: false, n, names: (0..n).map(|i| format!("w{:06}", (i * 7919 + 13) % 1_000_003)).collect(), order: (0..n).collect(), edges, weighted: false };
    let graph = ng.build();
    let all: HashSet<&str> = ng.names.iter().map(|s| s.as_str()).collect();
    out.api_calls += 1;
    match guard(|| graph.breadth_first_search(&ng.names[0])) {
        Err(p) => out.fail(format!("breadth_first_search/panic/{}", panic_class(&p)), p),
        Ok(l) => {
            let got: HashSet<&str> = l.iter().map(|s| s.as_str()).collect();
            out.check(l.first() == Some(&ng.names[0]), "breadth_first_search/start/first/wide_level", || format!("{:?}", l.first()));
            out.check(got.len() == l.len() && got.is_subset(&all), "breadth_first_search/once/duplicates_or_foreign/wide_level", || format!("{} entries, {} distinct", l.len(), got.len()));
            out.check(got.len() == n, "breadth_first_search/eq_closure/reachable_missing/wide_level", || format!("{} of {} nodes listed from the hub (one level has {} nodes)", got.len(), n, leaves));
        }
    }
    let one_set = |name: &str, r: Result<Result<Vec<HashSet<String>>, graphrs::Error>, String>, out: &mut Outcome| match r {
        Err(p) => out.fail(format!("{}/panic/{}", name, panic_class(&p)), p),
        Ok(Err(e)) => out.fail(format!("{}/error/wide_level", name), kind_of(&e)),
        Ok(Ok(sets)) => {
            let total: usize = sets.iter().map(|s| s.len()).sum();
            out.check(sets.len() == 1 && total == n && sets[0].iter().all(|x| all.contains(x.as_str())), &format!("{}/classes/split/wide_level", name), || format!("{} sets covering {} of {} nodes of one connected graph", sets.len(), total, n));
        }
    };
    out.api_calls += 2;
    if directed {
        one_set("weakly_connected_components", guard(|| components::weakly_connected_components(&graph)), &mut out);
    } else {
        one_set("connected_components", guard(|| components::connected_components(&graph)), &mut out);
        match guard(|| components::number_of_connected_components(&graph)) {
            Ok(Ok(c)) => {
                out.check(c == 1, "number_of_connected_components/eq_oracle/count/wide_level", || format!("{} vs 1", c));
            }
            Ok(Err(e)) => out.fail("number_of_connected_components/error/wide_level", kind_of(&e)),
            Err(p) => out.fail(format!("number_of_connected_components/panic/{}", panic_class(&p)), p),
        }
        out.api_calls += 1;
        match guard(|| components::node_connected_component(&graph, &ng.names[n - 1])) {
            Ok(Ok(s)) => {
                out.check(s.len() == n, "node_connected_component/eq_closure/wide_level", || format!("{} of {} nodes", s.len(), n));
            }
            Ok(Err(e)) => out.fail("node_connected_component/error/wide_level", kind_of(&e)),
            Err(p) => out.fail(format!("node_connected_component/panic/{}", panic_class(&p)), p),
        }
    }
    out.class("one_breadth_first_level_of_more_than_2^16_nodes");
    out.nontrivial = true;
    out
}

fn check_big(case: &CompCase) -> Outcome {
    let mut out = Outcome::new();
    let mut ng = case.g.norm();
    // make several components: drop the ring edges of every 7th node
    let n = ng.n;
    // about a dozen large components plus a few small ones (the library's component functions
    // cost O(n x components), so thousands of components would take minutes)
    let block = (n / 12).max(97);
    ng.edges.retain(|(i, j, _)| (i / block) == (j / block) && !(i % block < 3 && j % block >= 3));
    let graph = ng.build();
    let index: std::collections::HashMap<&str, usize> = ng.names.iter().enumerate().map(|(i, s)| (s.as_str(), i)).collect();
    let weak = weak_labels(&ng);
    let strong = strong_labels(&ng);
    let count = |l: &Vec<usize>| l.iter().collect::<BTreeSet<_>>().len();
    let check_sets = |name: &str, sets: &Vec<HashSet<String>>, labels: &Vec<usize>, out: &mut Outcome| {
        let mut placed = 0usize;
        let mut seen_labels = BTreeSet::new();
        for s in sets {
            if s.is_empty() {
                out.fail(format!("{}/partition/empty_set/large_graph", name), "empty set");
                return;
            }
            let mut lab = None;
            for x in s {
                let Some(i) = index.get(x.as_str()) else {
                    out.fail(format!("{}/partition/foreign_name/large_graph", name), x.clone());
                    return;
                };
                match lab {
                    None => lab = Some(labels[*i]),
                    Some(l) if l != labels[*i] => {
                        out.fail(format!("{}/classes/merged/large_graph", name), format!("a set mixes two components (n = {})", labels.len()));
                        return;
                    }
                    _ => {}
                }
            }
            placed += s.len();
            if !seen_labels.insert(lab.unwrap()) {
                out.fail(format!("{}/classes/split/large_graph", name), format!("two sets for one component (n = {})", labels.len()));
                return;
            }
        }
        if placed != labels.len() || seen_labels.len() != count(labels) {
            out.fail(format!("{}/partition/node_in_no_set/large_graph", name), format!("sets cover {} of {} nodes, {} of {} components", placed, labels.len(), seen_labels.len(), count(labels)));
        }
    };
    for threads in [16usize, 2] {
        let pool = crate::props::c17::pool_of(threads);
        out.api_calls += 3;
        if ng.directed {
            match guard(|| pool.install(|| components::weakly_connected_components(&graph))) {
                Ok(Ok(s)) => check_sets("weakly_connected_components", &s, &weak, &mut out),
                Ok(Err(e)) => out.fail("weakly_connected_components/error/large_graph", kind_of(&e)),
                Err(p) => out.fail(format!("weakly_connected_components/panic/{}", panic_class(&p)), p),
            }
            // the library's SCC routine is quadratic in the number of components (it rebuilds a
            // hash set per component), so it is only exercised up to 4000 nodes
            if n <= 4000 {
                match guard(|| pool.install(|| components::strongly_connected_components(&graph))) {
                    Ok(Ok(s)) => check_sets("strongly_connected_components", &s, &strong, &mut out),
                    Ok(Err(e)) => out.fail("strongly_connected_components/error/large_graph", kind_of(&e)),
                    Err(p) => out.fail(format!("strongly_connected_components/panic/{}", panic_class(&p)), p),
                }
            }
        } else {
            match guard(|| pool.install(|| components::connected_components(&graph))) {
                Ok(Ok(s)) => check_sets("connected_components", &s, &weak, &mut out),
                Ok(Err(e)) => out.fail("connected_components/error/large_graph", kind_of(&e)),
                Err(p) => out.fail(format!("connected_components/panic/{}", panic_class(&p)), p),
            }
            match guard(|| pool.install(|| components::number_of_connected_components(&graph))) {
                Ok(Ok(c)) => {
                    out.check(c == count(&weak), "number_of_connected_components/eq_oracle/count/large_graph", || format!("{} vs {}", c, count(&weak)));
                }
                Ok(Err(e)) => out.fail("number_of_connected_components/error/large_graph", kind_of(&e)),
                Err(p) => out.fail(format!("number_of_connected_components/panic/{}", panic_class(&p)), p),
            }
        }
        // equal-size partitions place every node exactly once (quadratic queue: up to 5000 nodes)
        let k = 1 + case.k as usize % 9;
        if n <= 5000 {
        match guard(|| pool.install(|| components::bfs_equal_size_partitions(&graph, k))) {
            Err(p) => out.fail(format!("bfs_equal_size_partitions/panic/{}", panic_class(&p)), p),
            Ok(parts) => {
                let total: usize = parts.iter().map(|p| p.len()).sum();
                let distinct: HashSet<&String> = parts.iter().flatten().collect();
                out.check(parts.len() == k && total == n && distinct.len() == n, "bfs_equal_size_partitions/parts/node_missing_or_twice/large_graph", || format!("{} parts, {} placements, {} distinct of {}", parts.len(), total, distinct.len(), n));
                let bound = n / k + 1;
                out.check(parts.iter().all(|p| p.len() <= bound), "bfs_equal_size_partitions/parts/size_bound/large_graph", || format!("bound {}", bound));
            }
        }
        }
        if !out.failures.is_empty() {
            break;
        }
    }
    out.class(format!("large_graph_n_above_{}", if n > 20000 { 20000 } else if n > 5000 { 5000 } else if n > 1000 { 1000 } else { 300 }));
    out.nontrivial = count(&weak) >= 2;
    out
}

impl Prop for C10 {
    type Case = CompCase;
    fn id(&self) -> &'static str {
        "C10"
    }
    fn rule(&self) -> String {
        "graphs of all 8 kinds, n in 0..=12 (some 13..=30, one case in 450 at a size around a power of two up to 255, and one case in 9000 with a procedurally generated graph of 300..40000 nodes checked against union-find / Kosaraju oracles in pools of 16 and 2 threads), sparse random edges plus shapes stressed towards many small components, long cycles, nested strongly connected components (cycle of cycles), DAGs, isolated nodes, self-loops and parallel edges; shuffled names. Oracle: boolean transitive closure of the edge list (Floyd-Warshall); connected/weak components = classes of mutual reachability ignoring direction, strong = mutual reachability; results compared as sets of sets (disjoint, non-empty, covering). node_connected_component and breadth_first_search from every node, bfs_equal_size_partitions for k = 1 + k%(n+2), WrongMethod on the other kind. Every call is repeated 3 times in-process (hash iteration order differs per call). Exhaustive block: all directed graphs on <= 3 nodes and undirected on <= 4. Non-trivial = >= 2 components with one of size >= 3 (for directed graphs additionally a node reachable from a non-trivial SCC but outside it); distinct = distinct serialised case. Name-type independence: for every graph of <= 12 nodes and one in eight up to 64 (34 for path-returning calls) the same calls are repeated with a user-defined node-name type (lossy Display, heavily colliding Hash, Ord unrelated to insertion order) and must give the same order-independent results as with String names (floats within 1e-9). Round 9: two fixed graphs (undirected 70 001 and directed 81 919 leaves around one hub, a pendant node behind every 89th leaf and the last five): one breadth-first level of more than 2^16 nodes; breadth_first_search from the hub lists every node once, connected / weakly connected components form one set, the count is 1 and node_connected_component of the last pendant node is the whole graph.".into()
    }
    fn assumptions(&self) -> Vec<String> {
        vec!["'bounded size' for bfs_equal_size_partitions is read as floor(n/k)+1 per part, the bound documented by the function".into()]
    }
    fn enumerate(&self, _tier: Tier) -> Vec<CompCase> {
        let mut v = vec![];
        for (kind, nmax) in [(1u8, 3u8), (5, 3), (0, 4), (4, 3)] {
            for n in 0..=nmax {
                for g in enumerate_small(kind, n, 0) {
                    v.push(CompCase { g, k: 1 });
                }
            }
        }
        // one breadth-first level of more than 2^16 nodes (see WIDE)
        for kind in [0u8, 1] {
            v.push(CompCase { g: GraphCase { kind, n: 0, perm: 0, shape: WIDE, edges: vec![], wmode: 0, big_n: 70_001 + 11_918 * kind as u32, big_seed: 0 }, k: 1 });
        }
        v
    }
    fn strategy(&self, _tier: Tier) -> BoxedStrategy<CompCase> {
        fn sparse(n: usize) -> usize {
            n + 2
        }
        fn dense(n: usize) -> usize {
            n * 3
        }
        let a = graph_strategy(&ALL_KINDS, 0, 12, sparse, &[0], 5);
        let b = graph_strategy(&ALL_KINDS, 0, 12, dense, &[0, 1], 2);
        let c = graph_strategy(&ALL_KINDS, 13, 30, sparse, &[0], 5);
        // sizes around powers of two and up to the largest representable one (bit sets, chunked
        // queues and similar size-dependent code would switch behaviour there)
        let boundary = proptest::sample::select(vec![31u8, 32, 33, 47, 63, 64, 65, 96, 127, 128, 129, 191, 192, 193, 254, 255]).prop_flat_map(|n| graph_strategy(&ALL_KINDS, n, n, sparse, &[0], 5));
        // procedurally generated graphs of 300..40000 nodes (names unrelated to insertion order)
        let big = big_graph_strategy(&[0, 1], 300, 40000, &[0]);
        fn none(_n: usize) -> usize {
            0
        }
        // pure shapes (no random edges on top): disconnected structures stay disconnected
        let pure = graph_strategy(&ALL_KINDS, 13, 64, none, &[0], 9);
        (prop_oneof![6000 => a, 2000 => b, 1000 => c, 300 => pure, 20 => boundary, 1 => big], any::<u8>()).prop_map(|(g, k)| CompCase { g, k }).boxed()
    }
    fn random_cases(&self, tier: Tier) -> u32 {
        tier.pick(300_000, 3_000_000)
    }
    fn check(&self, case: &CompCase) -> Outcome {
        if case.g.shape == WIDE {
            return check_wide(case);
        }
        if case.g.big_n > 0 {
            return check_big(case);
        }
        let mut out = Outcome::new();
        let ng = case.g.norm();
        let graph = ng.build();
        let n = ng.n;
        let r = reach(&ng);
        let weak = |a: usize, b: usize| -> bool {
            // symmetric closure: connected ignoring direction
            let mut seen = vec![false; n];
            let mut st = vec![a];
            while let Some(x) = st.pop() {
                if seen[x] {
                    continue;
                }
                seen[x] = true;
                for (i, j, _) in &ng.edges {
                    if *i == x {
                        st.push(*j);
                    }
                    if *j == x {
                        st.push(*i);
                    }
                }
            }
            seen[b]
        };
        let to_set = |cls: Vec<Vec<usize>>| -> BTreeSet<BTreeSet<usize>> { cls.into_iter().map(|c| c.into_iter().collect()).collect() };
        let weak_classes = to_set(classes(n, weak));
        let strong_classes = to_set(classes(n, |a, b| r[a][b] && r[b][a]));
        let reps = if n > 40 { 1 } else { 3 };
        for rep in 0..reps {
            let _ = rep;
            out.api_calls += 4;
            let cc = guard(|| components::connected_components(&graph));
            let ncc = guard(|| components::number_of_connected_components(&graph));
            let wcc = guard(|| components::weakly_connected_components(&graph));
            let scc = guard(|| components::strongly_connected_components(&graph));
            for (name, res, want, directed_fn) in [
                ("connected_components", cc, &weak_classes, false),
                ("weakly_connected_components", wcc, &weak_classes, true),
                ("strongly_connected_components", scc, &strong_classes, true),
            ] {
                match res {
                    Err(p) => out.fail(format!("{}/panic/{}", name, panic_class(&p)), p),
                    Ok(Err(e)) => {
                        out.check(directed_fn != ng.directed && kind_of(&e) == "WrongMethod", &format!("{}/error/kind", name), || format!("{} on {} graph", kind_of(&e), if ng.directed { "directed" } else { "undirected" }));
                    }
                    Ok(Ok(sets)) => {
                        if directed_fn != ng.directed {
                            out.fail(format!("{}/kind_guard/other_kind_accepted", name), "Ok on the other kind of graph");
                            continue;
                        }
                        match canon_sets(&ng, &sets) {
                            Err(why) => out.fail(format!("{}/partition/{}", name, why), format!("{:?}", sets)),
                            Ok(got) => {
                                if &got != want {
                                    let merged = got.len() < want.len();
                                    out.fail(
                                        if merged { format!("{}/classes/merged", name) } else { format!("{}/classes/split", name) },
                                        format!("got {:?} want {:?}", got, want),
                                    );
                                }
                            }
                        }
                    }
                }
            }
            match ncc {
                Err(p) => out.fail(format!("number_of_connected_components/panic/{}", panic_class(&p)), p),
                Ok(Err(e)) => {
                    out.check(ng.directed && kind_of(&e) == "WrongMethod", "number_of_connected_components/error/kind", || kind_of(&e));
                }
                Ok(Ok(c)) => {
                    out.check(!ng.directed && c == weak_classes.len(), "number_of_connected_components/eq_oracle/count", || format!("{} vs {}", c, weak_classes.len()));
                }
            }
            let starts: Vec<usize> = if n > 40 { vec![0, n / 3, n / 2, n - 1, case.k as usize % n] } else { (0..n).collect() };
            for x in starts {
                out.api_calls += 2;
                match guard(|| components::node_connected_component(&graph, &ng.names[x])) {
                    Err(p) => out.fail(format!("node_connected_component/panic/{}", panic_class(&p)), p),
                    Ok(Err(e)) => {
                        out.check(ng.directed && kind_of(&e) == "WrongMethod", "node_connected_component/error/kind", || kind_of(&e));
                    }
                    Ok(Ok(s)) => {
                        if ng.directed {
                            out.fail("node_connected_component/kind_guard/other_kind_accepted", "Ok on a directed graph");
                        } else {
                            let got: BTreeSet<usize> = s.iter().filter_map(|k| ng.index_of(k)).collect();
                            let want = weak_classes.iter().find(|c| c.contains(&x)).unwrap();
                            out.check(got.len() == s.len() && &got == want, "node_connected_component/eq_oracle/set", || format!("node {}: {:?} want {:?}", x, got, want));
                        }
                    }
                }
                match guard(|| graph.breadth_first_search(&ng.names[x])) {
                    Err(p) => out.fail(format!("breadth_first_search/panic/{}", panic_class(&p)), p),
                    Ok(l) => {
                        let got: BTreeSet<usize> = l.iter().filter_map(|k| ng.index_of(k)).collect();
                        let want: BTreeSet<usize> = (0..n).filter(|t| r[x][*t]).collect();
                        out.check(l.first() == Some(&ng.names[x]), "breadth_first_search/start/first", || format!("{:?}", l));
                        out.check(got.len() == l.len(), "breadth_first_search/once/duplicates_or_foreign", || format!("{:?}", l));
                        if got != want {
                            out.fail(
                                if got.is_subset(&want) { "breadth_first_search/eq_closure/reachable_missing" } else { "breadth_first_search/eq_closure/unreachable_listed" },
                                format!("from {}: {:?} want {:?}", x, got, want),
                            );
                        }
                    }
                }
            }
            // equal-size partitions
            let k = 1 + (case.k as usize) % (n + 2);
            out.api_calls += 1;
            match guard(|| components::bfs_equal_size_partitions(&graph, k)) {
                Err(p) => out.fail(format!("bfs_equal_size_partitions/panic/{}", panic_class(&p)), p),
                Ok(parts) => {
                    out.check(parts.len() == k, "bfs_equal_size_partitions/parts/count", || format!("{} parts for k = {}", parts.len(), k));
                    let bound = n / k + 1;
                    let mut seen = BTreeSet::new();
                    for p in &parts {
                        out.check(p.len() <= bound, "bfs_equal_size_partitions/parts/size_bound", || format!("part of {} > {}", p.len(), bound));
                        for x in p {
                            match ng.index_of(x) {
                                None => out.fail("bfs_equal_size_partitions/parts/foreign_name", format!("{:?}", x)),
                                Some(i) => {
                                    out.check(seen.insert(i), "bfs_equal_size_partitions/parts/node_twice", || format!("node {}", i));
                                }
                            }
                        }
                    }
                    out.check(seen.len() == n, "bfs_equal_size_partitions/parts/node_missing", || format!("{} of {} nodes placed", seen.len(), n));
                }
            }
            if !out.failures.is_empty() {
                break;
            }
        }
        let ref_classes = if ng.directed { &strong_classes } else { &weak_classes };
        let big = ref_classes.iter().any(|c| c.len() >= 3);
        let mut nt = ref_classes.len() >= 2 && big;
        if ng.directed && nt {
            // a node reachable from a non-trivial SCC but outside it
            nt = strong_classes.iter().filter(|c| c.len() >= 2).any(|c| {
                let a = *c.iter().next().unwrap();
                (0..n).any(|t| r[a][t] && !c.contains(&t))
            });
        }
        out.class(format!("kind_{}", ng.spec().label()));
        out.class(format!("components_{}", weak_classes.len().min(5)));
        if n > 30 {
            out.class(format!("boundary_size_{}", n));
        }
        if ng.directed && strong_classes.iter().filter(|c| c.len() >= 2).count() >= 2 {
            out.class("two_nontrivial_sccs");
        }
        if case.g.shape != 0 {
            out.class(format!("shape_{}", case.g.shape));
        }
        crate::altkey::maybe_check(&ng, crate::altkey::Group::Components, case.k as u64 ^ case.g.perm as u64, &mut out);
        out.nontrivial = nt;
        out
    }
}
