//! C03 — algorithms traverse exactly the stored edges, with their current weights.

use crate::coherent::*;
use crate::core::*;
use crate::engine::*;
use crate::gen;
use crate::model::*;
use crate::props::c01::{classify, run_ctor};
use proptest::strategy::BoxedStrategy;

pub struct C03;

impl Prop for C03 {
    type Case = HistCase;
    fn id(&self) -> &'static str {
        "C03"
    }
    fn rule(&self) -> String {
        "C01 histories restricted to uniformly weighted (positive dyadic k/4) or uniformly unweighted edges, all 96 specs (exhaustive block of length <= 3 incl. a lighter and a heavier duplicate, random block of length <= 24/60). After every step (hook) each traversal list must hold exactly the stored neighbours with the bit-exact minimum stored weight of the pair. Non-trivial = the history inserted a second edge on an occupied pair with a different weight and the final graph has >= 1 edge between distinct nodes; distinct = distinct serialised history.".into()
    }
    fn assumptions(&self) -> Vec<String> {
        vec!["histories are uniformly weighted or uniformly unweighted, as the property states".into(), "the snapshot hook copies successors_vec / predecessors_vec faithfully".into()]
    }
    fn enumerate(&self, _tier: Tier) -> Vec<HistCase> {
        let mut v = gen::enumerate_histories(1);
        v.extend(gen::enumerate_histories(2));
        v
    }
    fn strategy(&self, tier: Tier) -> BoxedStrategy<HistCase> {
        gen::hist(tier.pick(24, 60), &[1, 1, 1, 2])
    }
    fn random_cases(&self, tier: Tier) -> u32 {
        tier.pick(30_000, 600_000)
    }
    fn check(&self, case: &HistCase) -> Outcome {
        let mut out = Outcome::new();
        let Some((mut m, mut g)) = run_ctor(case, &mut out) else {
            return out;
        };
        out.failures.clear();
        traversal_check(&g, &m, &mut out);
        for op in &case.ops {
            let (mr, gr) = apply(op, case.wmode, &mut m, &mut g);
            out.api_calls += 1;
            if mr != gr {
                out.class("diverged_from_model");
                return out;
            }
            traversal_check(&g, &m, &mut out);
            if !out.failures.is_empty() {
                break;
            }
        }
        classify(case, &m, &mut out);
        out.nontrivial = (m.ev.dup_lighter + m.ev.dup_heavier) > 0 && m.edges.iter().any(|e| e.u != e.v);
        out
    }
}
