//! C03 — algorithms traverse exactly the stored edges, with their current weights.

use crate::coherent::*;
use crate::core::*;
use crate::engine::*;
use crate::gen;
use crate::model::*;
use crate::graphcase::ng_from_graph;
use crate::oracle::*;
use crate::props::c01::{classify, run_ctor};
use crate::props::c05::compare_node_map;
use graphrs::algorithms::centrality::{betweenness::betweenness_centrality, closeness::closeness_centrality};
use graphrs::algorithms::shortest_path::dijkstra;
use proptest::strategy::BoxedStrategy;

pub struct C03;


/// black-box channel: weighted (or hop-count) distances and centralities must equal those computed
/// from get_all_edges() alone. Runs in the middle of the history as well as at its end, so that an
/// algorithm call that leaves something behind in the graph object (a cache) is followed by
/// further mutations and another call.
fn blackbox(g: &G, m: &Model, out: &mut Outcome) {
if out.failures.is_empty() && !m.nodes.is_empty() {
        let ng = ng_from_graph(g);
        let weighted = ng.weighted;
        let w = weight_matrix(&ng, weighted);
        let d = floyd(&w);
        let mode = if weighted { "weighted" } else { "hops" };
        for s in 0..ng.n {
            out.api_calls += 1;
            match guard(|| dijkstra::single_source(g, weighted, ng.names[s].clone(), None, None, false, false)) {
                Err(p) => out.fail(format!("single_source[{}]/panic/{}", mode, panic_class(&p)), p),
                Ok(Err(e)) => out.fail(format!("single_source[{}]/error/{}", mode, kind_of(&e)), e.message.clone()),
                Ok(Ok(ans)) => {
                    for t in 0..ng.n {
                        let got = ans.get(&ng.names[t]).map(|i| i.distance);
                        let want = if d[s][t] < INF { Some(d[s][t]) } else { None };
                        if got != want {
                            let class = match (got, want) {
                                (Some(a), Some(b)) if a < b => "shorter_than_stored_edges_allow",
                                (Some(_), Some(_)) => "longer_than_stored_edges_allow",
                                (None, Some(_)) => "stored_edge_not_traversed",
                                _ => "traversed_edge_not_stored",
                            };
                            out.fail(format!("single_source[{}]/ne_oracle_on_get_all_edges/{}", mode, class), format!("d({:?},{:?}) = {:?} but get_all_edges() gives {:?}", ng.names[s], ng.names[t], got, want));
                            break;
                        }
                    }
                }
            }
        }
        if out.failures.is_empty() && ng.n <= 6 {
            let mut want = betweenness_brute(&w);
            rescale_betweenness(&mut want, ng.n, false, ng.directed);
            out.api_calls += 2;
            match guard(|| betweenness_centrality(g, weighted, false)) {
                Err(p) => out.fail(format!("betweenness_centrality[{}]/panic/{}", mode, panic_class(&p)), p),
                Ok(Err(e)) => out.fail(format!("betweenness_centrality[{}]/error/{}", mode, kind_of(&e)), e.message.clone()),
                Ok(Ok(got)) => compare_node_map(&ng, &got, &want, 1e-9, 1e-12, &format!("betweenness_centrality[{}]/ne_oracle_on_get_all_edges", mode), out),
            }
            let wantc = closeness(&d, true);
            match guard(|| closeness_centrality(g, weighted, true)) {
                Err(p) => out.fail(format!("closeness_centrality[{}]/panic/{}", mode, panic_class(&p)), p),
                Ok(Err(e)) => out.fail(format!("closeness_centrality[{}]/error/{}", mode, kind_of(&e)), e.message.clone()),
                Ok(Ok(got)) => compare_node_map(&ng, &got, &wantc, 1e-12, 1e-15, &format!("closeness_centrality[{}]/ne_oracle_on_get_all_edges", mode), out),
            }
        }
    }
}

impl Prop for C03 {
    type Case = HistCase;
    fn id(&self) -> &'static str {
        "C03"
    }
    fn rule(&self) -> String {
        "C01 histories restricted to uniformly weighted (positive dyadic k/4) or uniformly unweighted edges, all 96 specs (exhaustive block of length <= 3 incl. a lighter and a heavier duplicate, random block of length <= 24/60). After every step (hook) each traversal list must hold exactly the stored neighbours with the bit-exact minimum stored weight of the pair; in the middle and at the end of the history (black box) single_source from every node, betweenness and closeness must equal Floyd-Warshall / brute-force oracles evaluated on get_all_edges() alone. Non-trivial = the history inserted a second edge on an occupied pair with a different weight and the final graph has >= 1 edge between distinct nodes; distinct = distinct serialised history.".into()
    }
    fn assumptions(&self) -> Vec<String> {
        vec!["histories are uniformly weighted or uniformly unweighted, as the property states".into(), "the snapshot hook copies successors_vec / predecessors_vec faithfully".into()]
    }
    fn enumerate(&self, _tier: Tier) -> Vec<HistCase> {
        let mut v = gen::enumerate_histories(1);
        v.extend(gen::enumerate_histories(2));
        v.extend(gen::enumerate_histories(3));
        v.extend(gen::enumerate_histories(5));
        for huge in [1u8, 2] {
            v.push(HistCase { universe: 6, spec: 0, wmode: 1, ctor: None, ops: vec![], huge });
        }
        // histories on the huge graph: both directions x single/multi x the three duplicate
        // policies (the remaining policy bits vary with the index), one scripted history each
        for k in 0..12u8 {
            let (directed, multi, dedupe) = (k & 1, (k >> 1) & 1, (k >> 2) % 3);
            let rest = (k as u16 * 7 + 3) % 8; // loops / missing / loop strategy bits
            let spec = directed | multi << 1 | ((rest & 1) as u8) << 2 | ((dedupe + 3 * ((rest >> 1) & 1) as u8 + 6 * ((rest >> 2) & 1) as u8) << 3);
            v.push(HistCase { universe: 8, spec, wmode: 1, ctor: None, ops: crate::huge::huge_ops(0xC0FFEE + k as u64), huge: 1 });
            // the same policies on a universal hub whose edges arrived in four different orders
            for star in 4..=7u8 {
                v.push(HistCase { universe: 8, spec, wmode: 1, ctor: None, ops: crate::huge::huge_ops(0xBEEF + k as u64 * 8 + star as u64), huge: star });
            }
            // ... and on the complete graph of 1 100 nodes (undirected: 604 000 edges)
            if directed == 0 {
                v.push(HistCase { universe: 8, spec, wmode: 1, ctor: None, ops: crate::huge::huge_ops(0xD0D0 + k as u64), huge: 8 });
            }
        }
        // one batch of thousands of edges with a failing element in the middle
        for spec in (0..96u8).step_by(8) {
            v.push(HistCase { universe: spec % 4, spec, wmode: 1, ctor: None, ops: vec![Op::AddNode(0, None)], huge: 3 });
        }
        v
    }
    fn strategy(&self, tier: Tier) -> BoxedStrategy<HistCase> {
        use proptest::prelude::*;
        prop_oneof![60 => gen::hist(tier.pick(24, 60), &[1, 1, 1, 2, 3, 4, 5]), 1 => gen::hist_big(&[1, 1, 2, 3, 4, 5])].boxed()
    }
    fn extra_evidence(&self, root: &std::path::Path) -> serde_json::Value {
        crate::engine::fuzz_stats(root, "graph_history")
    }
    fn random_cases(&self, tier: Tier) -> u32 {
        tier.pick(150_000, 1_500_000)
    }
    fn check(&self, case: &HistCase) -> Outcome {
        if case.huge > 0 && !case.ops.is_empty() {
            // a history on the huge graph (hubs with thousands of neighbours)
            let mut out = Outcome::new();
            crate::huge::history(case, crate::huge::Aspect::Traversal, &mut out);
            out.class("huge_graph_66003_nodes");
            out.nontrivial = out.failures.is_empty() && !out.classes.iter().any(|c| c == "diverged_from_model");
            return out;
        }
        if case.huge > 0 {
            // the fixed huge-graph cases (more than 2^16 nodes), sampled reads and linear oracles
            let mut out = Outcome::new();
            let gc = &crate::huge::huge_cases()[(case.huge as usize - 1) % 2];
            let ng = gc.norm();
            let g = ng.build();
            crate::huge::distances(&g, &ng, "single_source", &mut out);
            out.class("huge_graph_66003_nodes");
            out.nontrivial = true;
            return out;
        }
        let mut out = Outcome::new();
        let Some((mut m, mut g)) = run_ctor(case, &mut out) else {
            return out;
        };
        out.failures.clear();
        // VERIF_C03_BLACKBOX_ONLY=1 switches the white-box channel off (used to show that the
        // black-box channel alone detects stale weights)
        let whitebox = std::env::var("VERIF_C03_BLACKBOX_ONLY").map_or(true, |v| v != "1");
        if whitebox {
            traversal_check(&g, &m, &mut out);
        }
        let mid = case.ops.len() / 2;
        for (step, op) in case.ops.iter().enumerate() {
            if step == mid && step > 0 && case.wmode != 5 {
                blackbox(&g, &m, &mut out);
            }
            let (mr, gr) = apply(op, case.wmode, &mut m, &mut g);
            out.api_calls += 1;
            if mr != gr {
                out.class("diverged_from_model");
                return out;
            }
            if whitebox {
                traversal_check(&g, &m, &mut out);
            }
            if !out.failures.is_empty() {
                break;
            }
        }
        if case.wmode != 5 {
            blackbox(&g, &m, &mut out);
        }
        classify(case, &m, &mut out);
        out.nontrivial = (m.ev.dup_lighter + m.ev.dup_heavier) > 0 && m.edges.iter().any(|e| e.u != e.v);
        out
    }
}
