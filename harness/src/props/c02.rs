//! C02 — every read API describes one and the same graph.

use crate::coherent::*;
use crate::core::*;
use crate::engine::*;
use crate::gen;
use crate::model::*;
use crate::props::c01::{classify, run_ctor};
use proptest::strategy::BoxedStrategy;

pub struct C02 {
    pub tier: Tier,
}

impl C02 {
    /// one non-deep coherence pass at the end of the history (used by the libFuzzer target, where
    /// throughput matters more than per-step checking)
    pub fn check_light(case: &HistCase) -> Outcome {
        let mut out = Outcome::new();
        let Some((mut m, mut g)) = run_ctor(case, &mut out) else {
            return out;
        };
        out.failures.clear();
        for op in &case.ops {
            let (mr, gr) = apply(op, case.wmode, &mut m, &mut g);
            if mr != gr {
                return out;
            }
        }
        let q = query_names(&m, case.universe <= 6);
        coherent(&g, &m, &q, false, &mut out);
        out
    }
}

impl Prop for C02 {
    type Case = HistCase;
    fn id(&self) -> &'static str {
        "C02"
    }
    fn rule(&self) -> String {
        "same histories as C01 (all 96 specs; exhaustive block of length <= 3, random block of length <= 20/40). After every second step (quick) / every step (thorough) and at the end, one coherence function compares every read API with the model's node list and edge multiset: get_edge/get_edges for every ordered pair of the 6-name universe plus an absent name, per-node all/in/out edge lists, node-set variants for every subset (64+) of the universe at the end of the history, successor/predecessor/neighbour queries and maps, has_node(s), index lookups, BFS reachability against the closure of the model edges, and (hook) the name-keyed and position-keyed stores list by list. Every edge returned by any view is compared with the model's edge including its attributes (a unique tag on two edges in three), so that all views must return the same stored object, not merely equal endpoints and weight. Non-trivial = >= 2 stored edges, >= 1 adjacent pair whose name order is the reverse of its insertion order, and >= 1 query with an absent name; distinct = distinct serialised history.".into()
    }
    fn assumptions(&self) -> Vec<String> {
        vec![
            "when both WrongMethod and NodeNotFound apply, either is accepted".into(),
            "get_predecessors_map is only asserted on directed graphs (documented as unused otherwise)".into(),
            "the snapshot hook (feature verif) copies the private indexes faithfully".into(),
        ]
    }
    fn enumerate(&self, _tier: Tier) -> Vec<HistCase> {
        let mut v = gen::enumerate_histories(0);
        for huge in [1u8, 2] {
            v.push(HistCase { universe: 6, spec: 0, wmode: 1, ctor: None, ops: vec![], huge });
        }
        // histories on the huge graph: both directions x single/multi x the three duplicate
        // policies (the remaining policy bits vary with the index), one scripted history each
        for k in 0..12u8 {
            let (directed, multi, dedupe) = (k & 1, (k >> 1) & 1, (k >> 2) % 3);
            let rest = (k as u16 * 7 + 3) % 8; // loops / missing / loop strategy bits
            let spec = directed | multi << 1 | ((rest & 1) as u8) << 2 | ((dedupe + 3 * ((rest >> 1) & 1) as u8 + 6 * ((rest >> 2) & 1) as u8) << 3);
            v.push(HistCase { universe: 8, spec, wmode: 1, ctor: None, ops: crate::huge::huge_ops(0xC0FFEE + k as u64), huge: 1 });
            // the same policies on a universal hub whose edges arrived in four different orders
            for star in 4..=7u8 {
                v.push(HistCase { universe: 8, spec, wmode: 1, ctor: None, ops: crate::huge::huge_ops(0xBEEF + k as u64 * 8 + star as u64), huge: star });
            }
            // ... and on the complete graph of 1 100 nodes (undirected: 604 000 edges)
            if directed == 0 {
                v.push(HistCase { universe: 8, spec, wmode: 1, ctor: None, ops: crate::huge::huge_ops(0xD0D0 + k as u64), huge: 8 });
            }
        }
        // one batch of thousands of edges with a failing element in the middle
        for spec in (0..96u8).step_by(8) {
            v.push(HistCase { universe: spec % 4, spec, wmode: 1, ctor: None, ops: vec![Op::AddNode(0, None)], huge: 3 });
        }
        v
    }
    fn strategy(&self, tier: Tier) -> BoxedStrategy<HistCase> {
        use proptest::prelude::*;
        prop_oneof![40 => gen::hist(tier.pick(20, 40), &[0, 0, 1, 2]), 1 => gen::hist_big(&[0, 1, 2])].boxed()
    }
    fn extra_evidence(&self, root: &std::path::Path) -> serde_json::Value {
        crate::engine::fuzz_stats(root, "graph_history")
    }
    fn random_cases(&self, tier: Tier) -> u32 {
        tier.pick(60_000, 600_000)
    }
    fn check(&self, case: &HistCase) -> Outcome {
        if case.huge > 0 && !case.ops.is_empty() {
            // a history on the huge graph (hubs with thousands of neighbours)
            let mut out = Outcome::new();
            crate::huge::history(case, crate::huge::Aspect::Reads, &mut out);
            out.class("huge_graph_66003_nodes");
            out.nontrivial = out.failures.is_empty() && !out.classes.iter().any(|c| c == "diverged_from_model");
            return out;
        }
        if case.huge > 0 {
            // the fixed huge-graph cases (more than 2^16 nodes), sampled reads and linear oracles
            let mut out = Outcome::new();
            let gc = &crate::huge::huge_cases()[(case.huge as usize - 1) % 2];
            let ng = gc.norm();
            let g = ng.build();
            crate::huge::core_reads(&g, &ng, &mut out);
            out.class("huge_graph_66003_nodes");
            out.nontrivial = true;
            return out;
        }
        let mut out = Outcome::new();
        let Some((mut m, mut g)) = run_ctor(case, &mut out) else {
            return out;
        };
        out.failures.clear(); // outcome mismatches are C01's subject
        let big = case.universe > 6;
        let mut q = query_names(&m, true);
        let every = if big { 25 } else { self.tier.pick(2, 1) };
        let mut inverted = 0;
        let mut absent = 0;
        for (i, op) in case.ops.iter().enumerate() {
            let (mr, gr) = apply(op, case.wmode, &mut m, &mut g);
            out.api_calls += 1;
            if mr != gr {
                // the model and the graph have diverged (C01); coherence against the model is
                // meaningless from here on
                out.class("diverged_from_model");
                return out;
            }
            if (i + 1) % every == 0 && i + 1 < case.ops.len() {
                if big {
                    q = query_names(&m, false);
                }
                let st = coherent(&g, &m, &q, false, &mut out);
                inverted += st.inverted_pairs;
                absent += st.absent_queries;
                if !out.failures.is_empty() {
                    break;
                }
            }
        }
        if out.failures.is_empty() {
            if big {
                q = query_names(&m, false);
            }
            let st = coherent(&g, &m, &q, true, &mut out);
            inverted += st.inverted_pairs;
            absent += st.absent_queries;
        }
        classify(case, &m, &mut out);
        if inverted > 0 {
            out.class("undirected_pair_with_inverted_name_order");
        }
        if m.edges.iter().any(|e| e.u == e.v) {
            out.class("has_self_loop");
        }
        if m.spec.multi && m.edges.iter().any(|e| m.between(&e.u, &e.v).len() > 1) {
            out.class("has_parallel_edges");
        }
        out.nontrivial = m.edges.len() >= 2 && inverted > 0 && absent > 0;
        out
    }
}
