//! C13 — Louvain terminates with nested partitions of non-decreasing modularity.

use crate::core::*;
use crate::engine::*;
use crate::graphcase::*;
use crate::props::c12::modularity_oracle;
use graphrs::algorithms::community::louvain;
use proptest::prelude::*;
use proptest::strategy::BoxedStrategy;
use serde::{Deserialize, Serialize};
use std::collections::{BTreeSet, HashSet};

#[derive(Clone, Debug, Serialize, Deserialize)]
pub struct LouvainCase {
    pub g: GraphCase,
    pub seed: u64,
    /// resolution = None when 255, else (r % 8 + 1) / 4 in (0, 2]
    pub res: u8,
    /// threshold: 0 => None, 1 => 0.0, 2 => 1e-7, 3 => 1e-3, 4 => 0.1
    pub thr: u8,
    pub weighted: bool,
    /// small-scope sweep: when set, `g.edges` only names the node pairs, and the check runs over
    /// *every* assignment of the integer weights 1..=max_w to them (scaled by 1/4: modularity is
    /// scale-invariant), with a seed derived from the assignment
    #[serde(default)]
    pub sweep_max_w: Option<u8>,
}

pub struct C13;

pub const STEP_BUDGET: u64 = 20_000;

pub fn resolution_of(r: u8) -> Option<f64> {
    if r == 255 {
        None
    } else {
        Some(((r % 8) as f64 + 1.0) / 4.0)
    }
}

pub fn threshold_of(t: u8) -> Option<f64> {
    match t % 5 {
        0 => None,
        1 => Some(0.0),
        2 => Some(1e-7),
        3 => Some(1e-3),
        _ => Some(0.1),
    }
}

/// Converts a level to index sets and checks that it is a partition into non-empty communities.
pub fn level_to_idx(ng: &NormGraph, level: &[HashSet<String>], ctx: &str, out: &mut Outcome) -> Option<Vec<BTreeSet<usize>>> {
    let mut seen = BTreeSet::new();
    let mut res = vec![];
    for c in level {
        if c.is_empty() {
            out.fail(format!("{}/level/empty_community", ctx), "a community is empty");
            return None;
        }
        let mut s = BTreeSet::new();
        for x in c {
            let Some(i) = ng.index_of(x) else {
                out.fail(format!("{}/level/foreign_name", ctx), format!("{:?}", x));
                return None;
            };
            if !seen.insert(i) {
                out.fail(format!("{}/level/node_in_two_communities", ctx), format!("node {}", i));
                return None;
            }
            s.insert(i);
        }
        res.push(s);
    }
    if seen.len() != ng.n {
        out.fail(format!("{}/level/node_missing", ctx), format!("{} of {} nodes", seen.len(), ng.n));
        return None;
    }
    Some(res)
}

pub fn canon_level(l: &[BTreeSet<usize>]) -> BTreeSet<BTreeSet<usize>> {
    l.iter().cloned().collect()
}

impl Prop for C13 {
    type Case = LouvainCase;
    fn id(&self) -> &'static str {
        "C13"
    }
    fn rule(&self) -> String {
        format!("graphs of all 8 kinds with >= 1 edge, n in 2..=14 (some 30..=40 and sparse 41..=90, which reach three or more levels), positive dyadic / tie-rich weights or unweighted, tie-rich shapes (paths, cycles, regular, joined cliques); seed in u64, resolution in {{None, k/4 for k = 1..8}}, threshold in {{None, 0, 1e-7, 1e-3, 0.1}}, weighted flag. Oracle: the call returns within a step budget of {} loop iterations (hook; ordinary runs need < 30) and the 120 s watchdog, without panic; the list of levels is non-empty; each level is a partition of the node set into non-empty communities; level k+1 is a coarsening of level k; on single-edge graphs the modularity computed by the harness's own formula (same weighted flag and resolution) is non-decreasing along the levels and level 0 is at least the all-singletons value (tolerance 1e-9); louvain_communities with the same arguments equals the last level. Non-trivial = the answer has >= 2 levels or a level with 2..n-1 communities; distinct = distinct serialised case. Round 9: three fixed graphs with a hub of 2 099 neighbours (edges outwards, inwards, undirected) plus a link from every third leaf to the next, unweighted, within 2 000 sweeps (they use fewer than 20).", STEP_BUDGET)
    }
    fn assumptions(&self) -> Vec<String> {
        vec![
            "termination is checked as 'within a budget about 1000 times the observed maximum'; this cannot distinguish 'for ever' from 'absurdly long', either is reported The same validity conditions are checked on the run with a user-defined node-name type (lossy Display, colliding Hash, Ord unrelated to insertion order) for every graph of <= 12 nodes and one in eight up to 64. Small-scope sweep (exhaustive block): every set of 1..=4 directed / 1..=5 undirected edges on 4 nodes x every assignment of integer weights 1..=6 (thorough 1..=10) x resolution in {0.5, 1, 1.5, 2}, one derived seed each (about 3.1 million louvain_partitions runs in the quick tier, 22 million in the thorough tier), same oracle without the louvain_communities comparison. Exhaustive block also holds 12 chains of 400..1000 nodes whose weights follow slowly varying laws of the position (ln, ln ln, sqrt, power 0.1, linear, decreasing ln), where one level takes hundreds of sweeps.".into(),
            "weighted = true is only used on graphs whose edges all carry positive weights".into(),
        ]
    }
    fn hang_is_violation(&self) -> bool {
        true
    }
    fn strategy(&self, _tier: Tier) -> BoxedStrategy<LouvainCase> {
        fn me(n: usize) -> usize {
            n * 2
        }
        fn me_large(n: usize) -> usize {
            n * 3
        }
        let small = graph_strategy(&ALL_KINDS, 2, 14, me, &[0, 0, 1, 3, 5, 6, 8, 8], 5);
        let large = graph_strategy(&ALL_KINDS, 30, 40, me_large, &[0, 1], 3);
        fn me_huge(n: usize) -> usize {
            n + n / 2
        }
        // sparse graphs large enough for three or more Louvain levels
        let huge = graph_strategy(&ALL_KINDS, 41, 90, me_huge, &[0, 1], 7);
        let boundary = boundary_graph_strategy(&ALL_KINDS, me_huge, &[0, 1], 6, 255);
        (prop_oneof![500 => small, 20 => large, 10 => huge, 1 => boundary], crate::props::c16::seed_strategy(), prop_oneof![2 => Just(255u8), 2 => any::<u8>()], 0u8..5, any::<bool>())
            .prop_map(|(g, seed, res, thr, weighted)| LouvainCase { g, seed, res, thr, weighted, sweep_max_w: None })
            .boxed()
    }
    fn random_cases(&self, tier: Tier) -> u32 {
        tier.pick(150_000, 1_500_000)
    }
    fn enumerate(&self, tier: Tier) -> Vec<LouvainCase> {
        let mut v = vec![];
        for kind in [0u8, 1, 4, 5] {
            for n in 2..=3u8 {
                if kind == 5 && n == 3 {
                    continue;
                }
                for g in enumerate_small(kind, n, 0) {
                    for seed in [0u64, 1] {
                        v.push(LouvainCase { g: g.clone(), seed, res: 255, thr: 0, weighted: false, sweep_max_w: None });
                    }
                }
            }
        }
        // long chains with slowly varying weights (400..1000 nodes x six laws of the position): a
        // level needs hundreds of sweeps there, each of which still raises the modularity
        for (n, law) in [(400u32, 1u64), (600, 0), (600, 3), (1000, 2), (600, 5), (400, 4)] {
            for kind in [0u8, 1] {
                v.push(LouvainCase { g: GraphCase { kind, n: 0, perm: 0, shape: 1, edges: vec![], wmode: 1, big_n: n, big_seed: law }, seed: n as u64 + law, res: 255, thr: 0, weighted: true, sweep_max_w: None });
            }
        }
        // a hub with more than 2^11 neighbours (outwards, inwards, undirected): per-node caches and
        // fast paths keyed on the neighbour count; the leaves of the outward hub do not link back
        for (kind, variant) in [(1u8, 0u64), (1, 1), (0, 0)] {
            v.push(LouvainCase { g: GraphCase { kind, n: 0, perm: 0, shape: 2, edges: vec![], wmode: 0, big_n: 2100, big_seed: variant }, seed: 3, res: 255, thr: 0, weighted: false, sweep_max_w: None });
        }
        // small-scope sweep: every set of 1..=4 (directed: of the 12 ordered pairs) or 1..=5
        // (undirected: of the 6 pairs) edges on 4 nodes x every assignment of integer weights
        // 1..=6 (thorough: 1..=10) x resolution in {0.5, 1, 1.5, 2}. Whether a move raises or lowers
        // modularity depends on ratios of small integers here, and Louvain's gain formula is only
        // exercised off its comfortable path (resolution != 1, asymmetric in/out degrees) by
        // particular ratios that random weights hit a few times in a million.
        let max_w = tier.pick(6u8, 10);
        for directed in [true, false] {
            let pairs: Vec<(u8, u8)> = (0..4u8).flat_map(|a| (0..4u8).filter(move |b| if directed { *b != a } else { *b > a }).map(move |b| (a, b))).collect();
            let max_edges = if directed { 4 } else { 5 };
            for mask in 1u32..(1 << pairs.len()) {
                if mask.count_ones() as usize > max_edges {
                    continue;
                }
                let edges: Vec<(u8, u8, u8)> = pairs.iter().enumerate().filter(|(i, _)| mask >> i & 1 == 1).map(|(_, (a, b))| (*a, *b, 0)).collect();
                for res in [1u8, 3, 5, 7] {
                    v.push(LouvainCase { g: GraphCase { kind: directed as u8, n: 4, perm: 0, shape: 0, edges: edges.clone(), wmode: 1, big_n: 0, big_seed: 0 }, seed: mask as u64, res, thr: 0, weighted: true, sweep_max_w: Some(max_w) });
                }
            }
        }
        v
    }
    fn check(&self, case: &LouvainCase) -> Outcome {
        if let Some(max_w) = case.sweep_max_w {
            return self.sweep(case, max_w.clamp(1, 12));
        }
        self.check_one(case, true)
    }
}

impl C13 {
    /// every weight assignment of a sweep case; stops at the first failing one
    fn sweep(&self, case: &LouvainCase, max_w: u8) -> Outcome {
        let mut out = Outcome::new();
        let k = case.g.edges.len().min(6);
        let total = (max_w as u64).pow(k as u32);
        let mut one = case.clone();
        one.sweep_max_w = None;
        for idx in 0..total {
            let mut x = idx;
            for e in one.g.edges.iter_mut().take(k) {
                e.2 = (x % max_w as u64) as u8; // decode_weight(1, r) = (r + 1) / 4
                x /= max_w as u64;
            }
            one.seed = mix(case.seed, idx);
            let o = self.check_one(&one, false);
            out.api_calls += o.api_calls;
            if std::env::var("VERIF_C13_SWEEP_COUNT").is_ok() {
                // calibration aid: count failing assignments instead of stopping
                if !o.failures.is_empty() {
                    eprintln!("SWEEPFAIL res={} maxr={} edges={:?}", case.res, one.g.edges.iter().map(|e| e.2).max().unwrap_or(0), one.g.edges);
                }
                continue;
            }
            if let Some(f) = o.failures.into_iter().next() {
                out.fail(f.sig, format!("[sweep assignment {}: edges {:?} (weight = (r+1)/4), seed {}] {}", idx, one.g.edges, one.seed, f.msg));
                break;
            }
        }
        out.class("small_scope_weight_sweep");
        out.class(if case.g.kind & 1 == 1 { "kind_Dsn" } else { "kind_Usn" });
        out.nontrivial = k >= 2;
        out
    }

    fn check_one(&self, case: &LouvainCase, with_alt: bool) -> Outcome {
        let mut out = Outcome::new();
        let ng = case.g.norm();
        if ng.edges.is_empty() || ng.n < 2 {
            out.class("no_edge_skipped");
            return out;
        }
        let graph = ng.build();
        let n = ng.n;
        let weighted = case.weighted && ng.weighted;
        let res = resolution_of(case.res);
        let thr = threshold_of(case.thr);
        let dir = if ng.directed { "directed" } else { "undirected" };
        out.api_calls += 1;
        // (a sweep over thousands of nodes costs milliseconds: the hub cases get 2 000 sweeps, a
        // hundred times what they use)
        let budget = if n > 1500 { 2_000 } else { STEP_BUDGET };
        graphrs::verif::set_step_budget(Some(budget));
        let r = guard(|| louvain::louvain_partitions(&graph, weighted, res, thr, Some(case.seed)));
        let used = budget - graphrs::verif::get_step_budget().unwrap_or(0).min(budget);
        graphrs::verif::set_step_budget(None);
        if n > 1500 {
            out.class(format!("hub_of_2099_neighbours_{}_sweeps_used", if used <= 20 { "at_most_20" } else if used <= 200 { "21_to_200" } else { "more_than_200" }));
        }
        let levels = match r {
            Err(p) => {
                if p.contains(graphrs::verif::STEP_BUDGET_EXHAUSTED) {
                    out.fail(format!("louvain_partitions/terminates/step_budget_exhausted/{}", dir), format!("no result after {} loop iterations", budget));
                } else {
                    out.fail(format!("louvain_partitions/panic/{}", panic_class(&p)), p);
                }
                return out;
            }
            Ok(Err(e)) => {
                out.fail(format!("louvain_partitions/error/{}", kind_of(&e)), e.message.clone());
                return out;
            }
            Ok(Ok(l)) => l,
        };
        if levels.is_empty() {
            out.fail("louvain_partitions/levels/empty_list", "no level returned");
            return out;
        }
        let mut idx_levels = vec![];
        for l in &levels {
            match level_to_idx(&ng, l, "louvain_partitions", &mut out) {
                Some(x) => idx_levels.push(x),
                None => return out,
            }
        }
        for k in 1..idx_levels.len() {
            for c in &idx_levels[k - 1] {
                if !idx_levels[k].iter().any(|d| c.is_subset(d)) {
                    out.fail("louvain_partitions/nested/community_split_at_next_level", format!("level {} community {:?} is not inside a community of level {}: {:?}", k - 1, c, k, idx_levels[k]));
                    return out;
                }
            }
        }
        if !ng.multi {
            let r0 = res.unwrap_or(1.0);
            let singles: Vec<Vec<usize>> = (0..n).map(|i| vec![i]).collect();
            let mut prev = modularity_oracle(&ng, &singles, weighted, r0);
            for (k, l) in idx_levels.iter().enumerate() {
                let fam: Vec<Vec<usize>> = l.iter().map(|c| c.iter().copied().collect()).collect();
                let q = modularity_oracle(&ng, &fam, weighted, r0);
                if q < prev - 1e-9 {
                    out.fail(
                        if k == 0 { format!("louvain_partitions/modularity/first_level_below_singletons/{}", dir) } else { format!("louvain_partitions/modularity/decreases_between_levels/{}", dir) },
                        format!("level {}: modularity {} after {} (weighted {}, resolution {:?})", k, q, prev, weighted, res),
                    );
                    return out;
                }
                prev = q;
            }
        }
        if !with_alt {
            // sweep mode: the partitions' own conditions only
            out.nontrivial = true;
            return out;
        }
        out.api_calls += 1;
        graphrs::verif::set_step_budget(Some(STEP_BUDGET));
        let r2 = guard(|| louvain::louvain_communities(&graph, weighted, res, thr, Some(case.seed)));
        graphrs::verif::set_step_budget(None);
        match r2 {
            Err(p) => out.fail(format!("louvain_communities/panic/{}", if p.contains(graphrs::verif::STEP_BUDGET_EXHAUSTED) { "step_budget".to_string() } else { panic_class(&p) }), p),
            Ok(Err(e)) => out.fail(format!("louvain_communities/error/{}", kind_of(&e)), e.message.clone()),
            Ok(Ok(c)) => {
                if let Some(ci) = level_to_idx(&ng, &c, "louvain_communities", &mut out) {
                    let last = idx_levels.last().unwrap();
                    out.check(canon_level(&ci) == canon_level(last), "louvain_communities/ne_last_level_of_partitions", || format!("{:?} vs {:?}", ci, last));
                }
            }
        }
        if with_alt && (n <= 12 || case.seed % 8 == 0) {
            let r0 = res.unwrap_or(1.0);
            crate::altkey::check_louvain_name_type(&ng, weighted, res, thr, case.seed, STEP_BUDGET, &|fam| modularity_oracle(&ng, fam, weighted, r0), &mut out);
        }
        out.class(format!("kind_{}", ng.spec().label()));
        out.class(format!("levels_{}", levels.len().min(4)));
        out.class(if weighted { "weighted" } else { "unweighted" });
        out.nontrivial = levels.len() >= 2 || idx_levels.iter().any(|l| l.len() >= 2 && l.len() < n);
        out
    }
}
