//! C09 — counts, degrees, density and the adjacency matrix agree with the edge multiset.

use crate::core::*;
use crate::engine::*;
use crate::gen;
use crate::graphcase::*;
use crate::model::*;
use crate::props::c01::run_ctor;
use graphrs::algorithms::centrality::degree::degree_centrality;
use proptest::prelude::*;
use proptest::strategy::BoxedStrategy;
use serde::{Deserialize, Serialize};

#[derive(Clone, Debug, Serialize, Deserialize)]
pub enum AnyGraph {
    Hist(HistCase),
    Graph(GraphCase),
    /// a tiny multigraph with very many parallel edges on a pair
    Heavy(HeavyCase),
}

pub struct C09;

/// Builds the graph and the expected (spec, names in position order, edges) of a case;
/// None when the history diverged from the model (C01's subject).
pub fn realise(case: &AnyGraph, out: &mut Outcome) -> Option<(G, Model)> {
    match case {
        AnyGraph::Hist(h) => {
            let (mut m, mut g) = run_ctor(h, out)?;
            out.failures.clear();
            for op in &h.ops {
                let (mr, gr) = apply(op, h.wmode, &mut m, &mut g);
                if mr != gr {
                    out.class("diverged_from_model");
                    return None;
                }
            }
            Some((g, m))
        }
        AnyGraph::Graph(_) | AnyGraph::Heavy(_) => {
            let ng = match case {
                AnyGraph::Graph(c) => c.norm(),
                AnyGraph::Heavy(h) => {
                    out.class("pair_with_very_many_parallel_edges");
                    h.norm()
                }
                _ => unreachable!(),
            };
            let (g, attrs) = ng.build_a();
            let mut m = Model::new(ng.spec());
            for i in &ng.order {
                m.nodes.push((ng.names[*i].clone(), Some(*i as i32)));
            }
            for ((i, j, w), a) in ng.edges.iter().zip(attrs) {
                m.edges.push(MEdge { u: ng.names[*i].clone(), v: ng.names[*j].clone(), w: *w, a });
            }
            Some((g, m))
        }
    }
}

pub fn any_graph_strategy(max_len: usize) -> BoxedStrategy<AnyGraph> {
    any_graph_strategy_w(max_len, 1)
}

/// `heavy_weight`: weight of the heavy-multiplicity class relative to 610 for the others together
pub fn any_graph_strategy_w(max_len: usize, heavy_weight: u32) -> BoxedStrategy<AnyGraph> {
    fn me(n: usize) -> usize {
        n * 3 + 2
    }
    prop_oneof![
        300 => gen::hist(max_len, &[0, 1, 1, 2]).prop_map(AnyGraph::Hist),
        10 => gen::hist_big(&[0, 1, 2]).prop_map(AnyGraph::Hist),
        200 => graph_strategy(&ALL_KINDS, 0, 9, me, &[0, 1, 1, 3, 8], 3).prop_map(AnyGraph::Graph),
        // a few larger graphs, so that size-dependent behaviour is not out of reach
        100 => graph_strategy(&ALL_KINDS, 10, 30, me, &[0, 1, 3], 3).prop_map(AnyGraph::Graph),
        // sizes around powers of two up to 255 nodes, mostly structured (stars, cliques, grids ...)
        // (the dense shapes are capped at 40 nodes: the reference computations here are quadratic
        // in the number of edges)
        20 => boundary_graph_strategy(&ALL_KINDS, me, &[0, 1, 3], 7, 255).prop_map(|mut g| {
            if matches!(g.shape, 4 | 5 | 9 | 12) {
                g.n = g.n.min(40);
            }
            AnyGraph::Graph(g)
        }),
        // a pair with hundreds or thousands of parallel edges (one case in ~400: they are slow)
        heavy_weight => heavy_strategy().prop_map(AnyGraph::Heavy),
    ]
    .boxed()
}

impl Prop for C09 {
    type Case = AnyGraph;
    fn id(&self) -> &'static str {
        "C09"
    }
    fn rule(&self) -> String {
        "graphs reached by C01 histories (all 96 specs, exhaustive block of length <= 3 plus random histories) and constructed graphs of all 8 kinds with self-loops, parallel edges and shuffled insertion order, dyadic weights. Oracle: counts over the model's node list N and edge list E: number_of_nodes/number_of_edges/size, per-node degree (self-loop adds 2), in/out degree, weighted variants, the *_for_all_nodes maps, handshake identities on the API's own outputs, None/WrongMethod on the other kind or an absent node, degree_centrality = deg/(n-1) for n >= 2, density of single-edge graphs, and the sparse adjacency matrix entry by entry (weight or 1, pattern, symmetry, WrongMethod on multi-edge graphs). Non-trivial = the graph has >= 2 edges and a self-loop, a parallel edge or an adjacent pair whose name order is the reverse of its insertion order; distinct = distinct serialised case. Name-type independence: for every graph of <= 12 nodes and one in eight up to 64 (34 for path-returning calls) the same calls are repeated with a user-defined node-name type (lossy Display, heavily colliding Hash, Ord unrelated to insertion order) and must give the same order-independent results as with String names (floats within 1e-9). One eligible case in four (a stored self-loop) is checked after clearing the public specs.self_loops flag on the live graph (the library reads it only in add_edge; stored loops remain edges). One case in ~600 is a tiny multigraph with a pair carrying a round number (2..8192: powers of two, powers of ten, their multiples and neighbours) of parallel edges.".into()
    }
    fn assumptions(&self) -> Vec<String> {
        vec![
            "weighted aggregates are only asserted when every edge is weighted (dyadic, so sums are exact in any order)".into(),
            "density is asserted for single-edge graphs with n >= 2 only, as the property states".into(),
        ]
    }
    fn enumerate(&self, _tier: Tier) -> Vec<AnyGraph> {
        let mut v: Vec<AnyGraph> = gen::enumerate_histories(1).into_iter().map(AnyGraph::Hist).collect();
        v.extend(crate::huge::huge_cases().into_iter().map(AnyGraph::Graph));
        v
    }
    fn strategy(&self, tier: Tier) -> BoxedStrategy<AnyGraph> {
        any_graph_strategy(tier.pick(24, 50))
    }
    fn random_cases(&self, tier: Tier) -> u32 {
        tier.pick(300_000, 3_000_000)
    }
    fn check(&self, case: &AnyGraph) -> Outcome {
        if let AnyGraph::Graph(c) = case {
            if c.big_n > 60_000 {
                // the fixed huge-graph cases (more than 2^16 nodes), linear oracles
                let mut out = Outcome::new();
                let ng = c.norm();
                let g = ng.build();
                crate::huge::degrees(&g, &ng, &mut out);
                out.class("huge_graph_66003_nodes");
                out.nontrivial = true;
                return out;
            }
        }
        let mut out = Outcome::new();
        let Some((mut g, m)) = realise(case, &mut out) else {
            return out;
        };
        // `specs` is a public field and the library consults `specs.self_loops` only when an edge
        // is added: a caller may clear it on a live graph to refuse further self-loops. The stored
        // self-loops are still edges of the graph, and the statement's identities ("a self-loop
        // adds two to its node") are about stored edges. One eligible case in four is checked in
        // that state.
        let selector = match case {
            AnyGraph::Hist(h) => h.ops.len() as u64 + h.spec as u64,
            AnyGraph::Graph(c) => (c.perm / 8) as u64,
            AnyGraph::Heavy(h) => h.groups.len() as u64,
        };
        if g.specs.self_loops && selector % 4 == 0 && m.edges.iter().any(|x| x.u == x.v) {
            g.specs.self_loops = false;
            out.class("self_loops_flag_cleared_on_live_graph");
        }
        let d = m.spec.directed;
        let names = m.names();
        let n = names.len();
        let e = &m.edges;
        let all_weighted = e.iter().all(|x| !x.w.is_nan());
        out.api_calls += 4;
        out.check(g.number_of_nodes() == n, "number_of_nodes/eq_model/count", || format!("{} vs {}", g.number_of_nodes(), n));
        if g.number_of_edges() != e.len() {
            out.fail(
                if m.spec.multi { "number_of_edges/eq_model/parallel_edges_not_counted" } else { "number_of_edges/eq_model/count" },
                format!("number_of_edges() = {} but {} edges are stored", g.number_of_edges(), e.len()),
            );
        }
        out.check(g.size(false) == e.len() as f64, "size_unweighted/eq_model/count", || format!("size(false) = {} vs {}", g.size(false), e.len()));
        if all_weighted {
            let total: f64 = e.iter().map(|x| x.w).sum();
            out.check(g.size(true) == total, "size_weighted/eq_model/sum", || format!("size(true) = {} vs {}", g.size(true), total));
        }
        // per node
        let mut sum_deg = 0usize;
        let mut sum_in = 0usize;
        let mut sum_out = 0usize;
        let (mut sum_wdeg, mut sum_win, mut sum_wout) = (0.0, 0.0, 0.0);
        out.api_calls += 6;
        let deg_all = g.get_degree_for_all_nodes();
        let in_all = g.get_in_degree_for_all_nodes();
        let out_all = g.get_out_degree_for_all_nodes();
        let wdeg_all = if all_weighted { Some(g.get_weighted_degree_for_all_nodes()) } else { None };
        let win_all = g.get_weighted_in_degree_for_all_nodes();
        let wout_all = g.get_weighted_out_degree_for_all_nodes();
        for (name, r) in [("get_in_degree_for_all_nodes", res_kind(&in_all)), ("get_out_degree_for_all_nodes", res_kind(&out_all)), ("get_weighted_in_degree_for_all_nodes", res_kind(&win_all)), ("get_weighted_out_degree_for_all_nodes", res_kind(&wout_all))] {
            let want = if d { "Ok" } else { "WrongMethod" };
            out.check(r == want, &format!("{}/kind_guard/kind", name), || format!("{} -> {} on a {} graph", name, r, if d { "directed" } else { "undirected" }));
        }
        out.check(deg_all.len() == n, "get_degree_for_all_nodes/keys/count", || format!("{} entries", deg_all.len()));
        for x in &names {
            let outd = e.iter().filter(|k| k.u == *x).count();
            let ind = e.iter().filter(|k| k.v == *x).count();
            let deg = outd + ind;
            let wout: f64 = e.iter().filter(|k| k.u == *x).map(|k| k.w).sum();
            let win: f64 = e.iter().filter(|k| k.v == *x).map(|k| k.w).sum();
            let wdeg = wout + win;
            let has_loop = e.iter().any(|k| k.u == *x && k.v == *x);
            out.api_calls += 6;
            let gd = g.get_node_degree(x.clone());
            if gd != Some(deg) {
                out.fail(
                    if d && has_loop { "get_node_degree/eq_model/directed_self_loop" } else if has_loop { "get_node_degree/eq_model/self_loop" } else { "get_node_degree/eq_model/count" },
                    format!("get_node_degree({:?}) = {:?} but {} edge ends touch it", x, gd, deg),
                );
            }
            out.check(deg_all.get(x) == Some(&deg) || gd != Some(deg), "get_degree_for_all_nodes/eq_per_node/value", || format!("{:?}: {:?} vs {}", x, deg_all.get(x), deg));
            sum_deg += gd.unwrap_or(0);
            let gi = g.get_node_in_degree(x.clone());
            let go = g.get_node_out_degree(x.clone());
            if d {
                out.check(gi == Some(ind), "get_node_in_degree/eq_model/count", || format!("in-degree of {:?} = {:?} want {}", x, gi, ind));
                out.check(go == Some(outd), "get_node_out_degree/eq_model/count", || format!("out-degree of {:?} = {:?} want {}", x, go, outd));
                if let (Some(a), Some(b), Some(c)) = (gd, gi, go) {
                    out.check(a == b + c, "handshake/degree_eq_in_plus_out/node", || format!("{:?}: degree {} in {} out {}", x, a, b, c));
                }
                if let Ok(mp) = &in_all {
                    out.check(mp.get(x) == Some(&ind), "get_in_degree_for_all_nodes/eq_per_node/value", || format!("{:?}: {:?} vs {}", x, mp.get(x), ind));
                }
                if let Ok(mp) = &out_all {
                    out.check(mp.get(x) == Some(&outd), "get_out_degree_for_all_nodes/eq_per_node/value", || format!("{:?}: {:?} vs {}", x, mp.get(x), outd));
                }
                sum_in += gi.unwrap_or(0);
                sum_out += go.unwrap_or(0);
            } else {
                out.check(gi.is_none() && go.is_none(), "get_node_in_out_degree/kind_guard/undirected", || format!("{:?}: {:?} {:?}", x, gi, go));
            }
            if all_weighted {
                let gw = g.get_node_weighted_degree(x.clone());
                out.check(gw == Some(wdeg), "get_node_weighted_degree/eq_model/sum", || format!("weighted degree of {:?} = {:?} want {}", x, gw, wdeg));
                sum_wdeg += gw.unwrap_or(0.0);
                if let Some(mp) = &wdeg_all {
                    out.check(mp.get(x) == Some(&wdeg) || gw != Some(wdeg), "get_weighted_degree_for_all_nodes/eq_per_node/value", || format!("{:?}: {:?} vs {}", x, mp.get(x), wdeg));
                }
                let gwi = g.get_node_weighted_in_degree(x.clone());
                let gwo = g.get_node_weighted_out_degree(x.clone());
                if d {
                    out.check(gwi == Some(win), "get_node_weighted_in_degree/eq_model/sum", || format!("{:?}: {:?} want {}", x, gwi, win));
                    out.check(gwo == Some(wout), "get_node_weighted_out_degree/eq_model/sum", || format!("{:?}: {:?} want {}", x, gwo, wout));
                    if let (Some(a), Some(b), Some(c)) = (gw, gwi, gwo) {
                        out.check(a == b + c, "handshake/weighted_degree_eq_in_plus_out/node", || format!("{:?}: {} vs {} + {}", x, a, b, c));
                    }
                    if let Ok(mp) = &win_all {
                        out.check(mp.get(x) == Some(&win), "get_weighted_in_degree_for_all_nodes/eq_per_node/value", || format!("{:?}", x));
                    }
                    if let Ok(mp) = &wout_all {
                        out.check(mp.get(x) == Some(&wout), "get_weighted_out_degree_for_all_nodes/eq_per_node/value", || format!("{:?}", x));
                    }
                    sum_win += gwi.unwrap_or(0.0);
                    sum_wout += gwo.unwrap_or(0.0);
                } else {
                    out.check(gwi.is_none() && gwo.is_none(), "get_node_weighted_in_out_degree/kind_guard/undirected", || format!("{:?}", x));
                }
            }
        }
        // absent node
        out.api_calls += 2;
        out.check(g.get_node_degree(ABSENT.to_string()).is_none(), "get_node_degree/absent_node/none", || "Some".into());
        out.check(g.get_node_weighted_degree(ABSENT.to_string()).is_none(), "get_node_weighted_degree/absent_node/none", || "Some".into());
        // handshake identities on the API's own outputs
        if out.failures.is_empty() {
            let ne = g.number_of_edges();
            out.check(sum_deg == 2 * ne, "handshake/sum_degree_eq_2m/graph", || format!("sum of degrees {} vs 2 x {}", sum_deg, ne));
            if d {
                out.check(sum_in == ne && sum_out == ne, "handshake/sum_in_out_eq_m/graph", || format!("in {} out {} m {}", sum_in, sum_out, ne));
            }
            if all_weighted {
                let sw = g.size(true);
                out.check(sum_wdeg == 2.0 * sw, "handshake/sum_weighted_degree_eq_2w/graph", || format!("{} vs 2 x {}", sum_wdeg, sw));
                if d {
                    out.check(sum_win == sw && sum_wout == sw, "handshake/sum_weighted_in_out_eq_w/graph", || format!("{} {} {}", sum_win, sum_wout, sw));
                }
            }
        }
        // degree centrality
        if n >= 2 {
            out.api_calls += 1;
            match guard(|| degree_centrality(&g)) {
                Err(p) => out.fail(format!("degree_centrality/panic/{}", panic_class(&p)), p),
                Ok(dc) => {
                    out.check(dc.len() == n, "degree_centrality/keys/count", || format!("{}", dc.len()));
                    for x in &names {
                        let deg = e.iter().filter(|k| k.u == *x).count() + e.iter().filter(|k| k.v == *x).count();
                        let want = deg as f64 / (n as f64 - 1.0);
                        let got = dc.get(x).copied().unwrap_or(f64::NAN);
                        if !approx(got, want, 1e-12, 0.0) {
                            out.fail(
                                if e.iter().any(|k| k.u == *x && k.v == *x) { "degree_centrality/eq_definition/self_loop" } else { "degree_centrality/eq_definition/value" },
                                format!("{:?}: {} want {}", x, got, want),
                            );
                        }
                    }
                }
            }
        }
        // density
        if !m.spec.multi && n >= 2 {
            out.api_calls += 1;
            let mm = e.len() as f64;
            let want = if d { mm / (n as f64 * (n as f64 - 1.0)) } else { 2.0 * mm / (n as f64 * (n as f64 - 1.0)) };
            let got = g.get_density();
            out.check(approx(got, want, 1e-12, 0.0), "get_density/eq_definition/value", || format!("{} want {}", got, want));
        }
        // adjacency matrix
        out.api_calls += 1;
        match guard(|| g.get_sparse_adjacency_matrix()) {
            Err(p) => out.fail(format!("get_sparse_adjacency_matrix/panic/{}", panic_class(&p)), p),
            Ok(Err(err)) => {
                out.check(m.spec.multi && kind_of(&err) == "WrongMethod", "get_sparse_adjacency_matrix/error/kind", || kind_of(&err));
            }
            Ok(Ok(mat)) => {
                if m.spec.multi {
                    out.fail("get_sparse_adjacency_matrix/kind_guard/multi", "Ok on a multi-edge graph");
                } else {
                    out.check(mat.shape() == (n, n), "get_sparse_adjacency_matrix/shape/nxn", || format!("{:?}", mat.shape()));
                    if mat.shape() == (n, n) {
                        for i in 0..n {
                            for j in 0..n {
                                let between = m.between(&names[i], &names[j]);
                                let got = mat.get(i, j).copied();
                                match between.first() {
                                    None => {
                                        out.check(got.map_or(true, |x| x == 0.0), "get_sparse_adjacency_matrix/pattern/entry_without_edge", || format!("({}, {}) = {:?}", i, j, got));
                                    }
                                    Some(edge) => {
                                        let want = if edge.w.is_nan() { 1.0 } else { edge.w };
                                        match got {
                                            None => out.fail(
                                                if !d { "get_sparse_adjacency_matrix/pattern/undirected_mirror_entry_missing" } else { "get_sparse_adjacency_matrix/pattern/edge_without_entry" },
                                                format!("edge {:?}-{:?} stored but entry ({}, {}) is absent", names[i], names[j], i, j),
                                            ),
                                            Some(x) if x.is_nan() => out.fail("get_sparse_adjacency_matrix/value/nan_for_unweighted_edge", format!("({}, {}) is NaN", i, j)),
                                            Some(x) => {
                                                out.check(x == want, "get_sparse_adjacency_matrix/value/ne_weight", || format!("({}, {}) = {} want {}", i, j, x, want));
                                            }
                                        }
                                    }
                                }
                                if !d {
                                    let a = mat.get(i, j).copied().unwrap_or(0.0);
                                    let b = mat.get(j, i).copied().unwrap_or(0.0);
                                    if !(a == b || (a.is_nan() && b.is_nan())) && out.failures.is_empty() {
                                        out.fail("get_sparse_adjacency_matrix/symmetry/undirected", format!("({},{}) = {} but ({},{}) = {}", i, j, a, j, i, b));
                                    }
                                }
                            }
                        }
                    }
                }
            }
        }
        // classes
        out.class(format!("kind_{}", m.spec.label()));
        let has_loop = e.iter().any(|k| k.u == k.v);
        let has_par = e.iter().any(|k| m.between(&k.u, &k.v).len() > 1);
        let inverted = e.iter().any(|k| k.u != k.v && (k.u < k.v) != (m.pos(&k.u) < m.pos(&k.v)));
        if has_loop {
            out.class("has_self_loop");
        }
        if has_par {
            out.class("has_parallel_edges");
        }
        if inverted {
            out.class("has_inverted_pair");
        }
        out.class(if all_weighted { "all_weighted" } else { "some_unweighted" });
        if g.number_of_edges() <= 200 {
            crate::altkey::maybe_check(&ng_from_graph(&g), crate::altkey::Group::Degrees, g.number_of_edges() as u64, &mut out);
        }
        out.nontrivial = e.len() >= 2 && (has_loop || has_par || inverted);
        out
    }
}
