//! C17 — a seed makes randomised functions reproducible.

use crate::core::*;
use crate::engine::*;
use crate::graphcase::*;
use crate::props::c13::{resolution_of, threshold_of};
use graphrs::algorithms::{centrality, cluster, community, components, shortest_path::dijkstra};
use graphrs::generators::random::fast_gnp_random_graph;
use proptest::prelude::*;
use proptest::strategy::BoxedStrategy;
use serde::{Deserialize, Serialize};
use serde_json::{json, Value};
use std::cell::RefCell;
use std::collections::BTreeSet;
use std::io::{BufRead, BufReader, Write};
use std::process::{Child, ChildStdin, ChildStdout, Command, Stdio};

#[derive(Clone, Debug, Serialize, Deserialize)]
pub enum DetCase {
    Louvain { g: GraphCase, seed: u64, res: u8, thr: u8, weighted: bool },
    Gnp { n: u16, p_milli: u16, directed: bool, seed: u64 },
    /// the non-randomised algorithms on one graph
    Algos { g: GraphCase },
}

pub struct C17;

/// (exact part, float part) of the results of a case, computed in this process
pub fn results(case: &DetCase) -> Result<(Value, Vec<f64>), String> {
    match case {
        DetCase::Louvain { g, seed, res, thr, weighted } => {
            let ng = g.norm();
            let graph = ng.build();
            let w = *weighted && ng.weighted;
            graphrs::verif::set_step_budget(Some(3000));
            let r = guard(|| community::louvain::louvain_partitions(&graph, w, resolution_of(*res), threshold_of(*thr), Some(*seed)));
            let c = guard(|| community::louvain::louvain_communities(&graph, w, resolution_of(*res), threshold_of(*thr), Some(*seed)));
            graphrs::verif::set_step_budget(None);
            let canon = |l: &Vec<std::collections::HashSet<String>>| -> BTreeSet<BTreeSet<String>> { l.iter().map(|c| c.iter().cloned().collect()).collect() };
            let levels = match r {
                Err(p) => return Err(format!("panic: {}", p)),
                Ok(Err(e)) => json!({ "err": kind_of(&e) }),
                Ok(Ok(ls)) => json!(ls.iter().map(canon).collect::<Vec<_>>()),
            };
            let last = match c {
                Err(p) => return Err(format!("panic: {}", p)),
                Ok(Err(e)) => json!({ "err": kind_of(&e) }),
                Ok(Ok(l)) => json!(canon(&l)),
            };
            Ok((json!({ "partitions": levels, "communities": last }), vec![]))
        }
        DetCase::Gnp { n, p_milli, directed, seed } => {
            let p = (*p_milli as f64).clamp(1.0, 999.0) / 1000.0;
            match guard(|| fast_gnp_random_graph(*n as i32, p, *directed, Some(*seed))) {
                Err(pm) => Err(format!("panic: {}", pm)),
                Ok(Err(e)) => Ok((json!({ "err": kind_of(&e) }), vec![])),
                Ok(Ok(g)) => {
                    let nodes: Vec<i32> = g.get_all_node_names().into_iter().copied().collect();
                    let mut edges: Vec<(i32, i32)> = g.get_all_edges().iter().map(|e| (e.u, e.v)).collect();
                    edges.sort();
                    Ok((json!({ "nodes": nodes, "edges": edges }), vec![]))
                }
            }
        }
        DetCase::Algos { g } => {
            let ng = g.norm();
            let graph = ng.build();
            let w = ng.weighted;
            let mut exact = serde_json::Map::new();
            let mut floats: Vec<f64> = vec![];
            let r = guard(|| {
                // shortest paths: keys and path lists exactly, distances as floats
                if let Ok(ap) = dijkstra::all_pairs(&graph, w, None, None, false, true) {
                    let mut rows: Vec<(String, Vec<(String, Vec<Vec<String>>)>)> = vec![];
                    let mut ds = vec![];
                    let mut srcs: Vec<&String> = ap.keys().collect();
                    srcs.sort();
                    for s in srcs {
                        let mut ts: Vec<&String> = ap[s].keys().collect();
                        ts.sort();
                        let mut row = vec![];
                        for t in ts {
                            let mut p = ap[s][t].paths.clone();
                            p.sort();
                            ds.push(ap[s][t].distance);
                            row.push((t.clone(), p));
                        }
                        rows.push((s.clone(), row));
                    }
                    exact.insert("all_pairs".into(), json!(rows));
                    floats.extend(ds);
                }
                let mut fmap = |name: &str, m: Result<std::collections::HashMap<String, f64>, graphrs::Error>, exact: &mut serde_json::Map<String, Value>, floats: &mut Vec<f64>| match m {
                    Ok(m) => {
                        let mut ks: Vec<&String> = m.keys().collect();
                        ks.sort();
                        exact.insert(name.into(), json!(ks));
                        floats.extend(ks.iter().map(|k| m[*k]));
                    }
                    Err(e) => {
                        exact.insert(name.into(), json!({ "err": kind_of(&e) }));
                    }
                };
                fmap("betweenness", centrality::betweenness::betweenness_centrality(&graph, w, true), &mut exact, &mut floats);
                fmap("closeness", centrality::closeness::closeness_centrality(&graph, w, true), &mut exact, &mut floats);
                if !ng.multi {
                    fmap("clustering", cluster::clustering(&graph, w, None), &mut exact, &mut floats);
                    fmap("eigenvector", centrality::eigenvector::eigenvector_centrality(&graph, w, Some(500), Some(1e-8)), &mut exact, &mut floats);
                }
                let sets = |r: Result<Vec<std::collections::HashSet<String>>, graphrs::Error>| match r {
                    Ok(v) => json!(v.iter().map(|c| c.iter().cloned().collect::<BTreeSet<_>>()).collect::<BTreeSet<_>>()),
                    Err(e) => json!({ "err": kind_of(&e) }),
                };
                exact.insert("connected".into(), sets(components::connected_components(&graph)));
                exact.insert("weak".into(), sets(components::weakly_connected_components(&graph)));
                exact.insert("strong".into(), sets(components::strongly_connected_components(&graph)));
                if !ng.edges.is_empty() {
                    let singles: Vec<std::collections::HashSet<String>> = ng.names.iter().map(|x| [x.clone()].into_iter().collect()).collect();
                    if let Ok(q) = community::partitions::modularity(&graph, &singles, w, None) {
                        floats.push(q);
                    }
                }
            });
            match r {
                Err(p) => Err(format!("panic: {}", p)),
                Ok(()) => Ok((Value::Object(exact), floats)),
            }
        }
    }
}

// ------------------------------------------------------------------------------------------------
// worker process protocol: one JSON case per line in, one JSON result per line out

pub fn worker_main() {
    install_panic_hook();
    let stdin = std::io::stdin();
    let mut out = std::io::stdout();
    for line in stdin.lock().lines() {
        let Ok(line) = line else { break };
        let resp = match serde_json::from_str::<DetCase>(&line) {
            Err(e) => json!({ "error": format!("bad request: {}", e) }),
            Ok(case) => match results(&case) {
                Ok((exact, floats)) => json!({ "exact": exact, "floats": floats.iter().map(|f| f.to_bits()).collect::<Vec<u64>>() }),
                Err(e) => json!({ "error": e }),
            },
        };
        if writeln!(out, "{}", resp).is_err() || out.flush().is_err() {
            break;
        }
    }
}

struct Worker {
    _child: Child,
    stdin: ChildStdin,
    stdout: BufReader<ChildStdout>,
    threads: usize,
}

thread_local! {
    static WORKER: RefCell<Option<Worker>> = const { RefCell::new(None) };
}

static WORKER_SEQ: std::sync::atomic::AtomicUsize = std::sync::atomic::AtomicUsize::new(0);

fn ask_worker(case: &DetCase) -> Result<(Value, Vec<f64>, usize), String> {
    WORKER.with(|w| {
        let mut w = w.borrow_mut();
        if w.is_none() {
            let k = WORKER_SEQ.fetch_add(1, std::sync::atomic::Ordering::Relaxed);
            let threads = [1usize, 3, 16][k % 3];
            let exe = std::env::current_exe().map_err(|e| e.to_string())?;
            let mut child = Command::new(exe)
                .args(["--worker", "C17"])
                .env("RAYON_NUM_THREADS", threads.to_string())
                .stdin(Stdio::piped())
                .stdout(Stdio::piped())
                .stderr(Stdio::null())
                .spawn()
                .map_err(|e| e.to_string())?;
            let stdin = child.stdin.take().ok_or("no stdin")?;
            let stdout = BufReader::new(child.stdout.take().ok_or("no stdout")?);
            *w = Some(Worker { _child: child, stdin, stdout, threads });
        }
        let wk = w.as_mut().unwrap();
        let line = serde_json::to_string(case).map_err(|e| e.to_string())?;
        writeln!(wk.stdin, "{}", line).map_err(|e| e.to_string())?;
        wk.stdin.flush().map_err(|e| e.to_string())?;
        let mut resp = String::new();
        wk.stdout.read_line(&mut resp).map_err(|e| e.to_string())?;
        let v: Value = serde_json::from_str(&resp).map_err(|e| format!("{} in {:?}", e, resp))?;
        if let Some(e) = v.get("error") {
            return Err(format!("worker: {}", e));
        }
        let floats: Vec<f64> = v["floats"].as_array().map(|a| a.iter().filter_map(|x| x.as_u64()).map(f64::from_bits).collect()).unwrap_or_default();
        Ok((v["exact"].clone(), floats, wk.threads))
    })
}

/// shared rayon pools (building a pool per case costs milliseconds)
pub fn pool_of(threads: usize) -> &'static rayon::ThreadPool {
    static POOLS: std::sync::OnceLock<Vec<rayon::ThreadPool>> = std::sync::OnceLock::new();
    // sizes 1..=16, then pools that are wider than the machine and than most generated graphs
    let pools = POOLS.get_or_init(|| (1..=16).chain(WIDE_POOLS).map(|t| rayon::ThreadPoolBuilder::new().num_threads(t).build().expect("pool")).collect());
    match WIDE_POOLS.iter().position(|w| *w == threads) {
        Some(i) => &pools[16 + i],
        None => &pools[threads.clamp(1, 16) - 1],
    }
}

/// Runs `f` in the ambient (global, 16-thread) pool or inside one of the shared pools, selected by
/// the case: the result of a deterministic function must not depend on it, and the pool size is
/// an input like any other (1 = serial path, 3 = fewer threads than cores, 24 / 64 = more threads
/// than cores and, for the 21..=60-node class, than nodes).
pub fn in_some_pool<R: Send>(sel: u64, f: impl FnOnce() -> R + Send) -> R {
    match sel % 7 {
        0 | 1 | 2 => f(),
        3 => pool_of(1).install(f),
        4 => pool_of(3).install(f),
        5 => pool_of(24).install(f),
        _ => pool_of(64).install(f),
    }
}

/// pool sizes beyond the 16 cores: 24 and 32 (a larger server), 64 (wider than every graph of the
/// 21..=60-node class, so that work is split into more parts than there are items)
pub const WIDE_POOLS: [usize; 3] = [24, 32, 64];

fn compare(tag: &str, what: &str, a: &(Value, Vec<f64>), b: &(Value, Vec<f64>), out: &mut Outcome) {
    if tag.contains("non_dyadic") && a.0 != b.0 {
        // one signature for the whole class (see known_findings.txt)
        out.fail(format!("{}/not_reproducible", tag), format!("{}: first: {} -- other: {}", what, a.0, b.0));
        return;
    }
    if a.0 != b.0 {
        // name the first differing key
        let key = match (&a.0, &b.0) {
            (Value::Object(x), Value::Object(y)) => x.keys().find(|k| x.get(*k) != y.get(*k)).cloned().unwrap_or_default(),
            _ => String::new(),
        };
        out.fail(format!("{}/differs_{}/{}", tag, what, key), format!("first: {} -- other: {}", a.0, b.0));
        return;
    }
    if a.1.len() != b.1.len() || a.1.iter().zip(&b.1).any(|(x, y)| !approx(*x, *y, 1e-9, 1e-12)) {
        out.fail(format!("{}/floats_differ_{}", tag, what), format!("{:?} vs {:?}", a.1, b.1));
    }
}

impl Prop for C17 {
    type Case = DetCase;
    fn id(&self) -> &'static str {
        "C17"
    }
    fn rule(&self) -> String {
        "Louvain cases: graphs of all 8 kinds with exact gain ties (paths, cycles, regular, complete, grids, unweighted random) and weighted random graphs (dyadic and non-dyadic), n in 2..=40, seeds in u64, resolution and threshold as C13 (threshold 0 only with exact weights); generator cases (n <= 120, p, directed, seed); 'algos' cases: the non-randomised algorithms (all_pairs, betweenness, closeness, clustering, eigenvector, the three component functions, modularity) on one graph. Oracle: the canonical result (sorted sets of sorted sets per level; sorted node and edge lists; keys, path lists and component sets exactly, floats within 1e-9) must be identical across 5 repeated calls in this process (each call builds freshly keyed hash maps), inside rayon pools of 1, 3 and 16 threads, and in a separate worker process started with RAYON_NUM_THREADS in {1,3,16}. Non-trivial = a Louvain case on a graph with >= 6 nodes from a tie-rich class (unweighted or tie-rich weights) whose answer has >= 2 communities, or a generator/algos case with >= 1 edge; distinct = distinct serialised case.".into()
    }
    fn assumptions(&self) -> Vec<String> {
        vec![
            "worker processes are long-lived (one per harness thread), not one per case".into(),
            "threshold = 0 is only combined with dyadic or unit weights, where modularity values are exact".into(),
        ]
    }
    fn strategy(&self, _tier: Tier) -> BoxedStrategy<DetCase> {
        fn me(n: usize) -> usize {
            n * 2
        }
        let tie = graph_strategy(&ALL_KINDS, 2, 14, me, &[0, 0, 3], 7);
        let big = graph_strategy(&ALL_KINDS, 15, 40, me, &[0, 3], 6);
        let wtd = graph_strategy(&ALL_KINDS, 2, 14, me, &[1, 4, 6, 7, 7, 10, 10, 13, 14], 5);
        let algos = graph_strategy(&ALL_KINDS, 0, 24, me, &[0, 1, 4], 3);
        fn few(_n: usize) -> usize {
            3
        }
        // tie-breaking proper: clusters with satellites that have several equally, or almost
        // equally (weights spaced at a fraction of the library's gain tolerance), attractive
        // communities to join
        let sat = graph_strategy(&ALL_KINDS, 10, 40, few, &[10, 10, 10, 0, 3, 7, 7, 13, 14], 0).prop_map(|mut g| {
            g.shape = 11;
            g
        });
        prop_oneof![
            12 => (prop_oneof![50 => tie, 10 => big, 40 => wtd, 15 => sat, 1 => boundary_graph_strategy(&ALL_KINDS, me, &[0, 3], 6, 192)], crate::props::c16::seed_strategy(), prop_oneof![2 => Just(255u8), 1 => any::<u8>()], 0u8..5, any::<bool>()).prop_map(|(g, seed, res, thr, weighted)| {
                let thr = if matches!(g.wmode, 4 | 7 | 10 | 13 | 14) && thr % 5 == 1 { 2 } else { thr };
                DetCase::Louvain { g, seed, res, thr, weighted }
            }),
            2 => (0u16..=120, 1u16..999, any::<bool>(), crate::props::c16::seed_strategy()).prop_map(|(n, p_milli, directed, seed)| DetCase::Gnp { n, p_milli, directed, seed }),
            3 => algos.prop_map(|g| DetCase::Algos { g }),
        ]
        .boxed()
    }
    fn random_cases(&self, tier: Tier) -> u32 {
        tier.pick(8_000, 120_000)
    }
    fn check(&self, case: &DetCase) -> Outcome {
        let mut out = Outcome::new();
        let tag = match case {
            DetCase::Louvain { g, weighted, .. } if matches!(g.wmode, 4 | 7) && *weighted => "louvain[weighted,non_dyadic_weights]",
            DetCase::Louvain { g, weighted, .. } if matches!(g.wmode, 13 | 14) && *weighted => "louvain[weighted,non_dyadic_weights_1e4_to_1e6]",
            DetCase::Louvain { g, weighted, .. } if g.wmode == 10 && *weighted => "louvain[weighted,near_ties_at_tolerance_scale]",
            DetCase::Louvain { .. } => "louvain[exact_arithmetic]",
            DetCase::Gnp { .. } => "fast_gnp_random_graph",
            DetCase::Algos { .. } => "algorithms",
        };
        let first = match results(case) {
            Ok(r) => r,
            Err(e) => {
                out.fail(format!("{}/panic/{}", tag, panic_class(&e)), e);
                return out;
            }
        };
        out.api_calls += 1;
        for _ in 0..4 {
            out.api_calls += 1;
            match results(case) {
                Ok(r) => compare(tag, "between_repeated_calls", &first, &r, &mut out),
                Err(e) => out.fail(format!("{}/panic/{}", tag, panic_class(&e)), e),
            }
            if !out.failures.is_empty() {
                return out;
            }
        }
        for threads in [1usize, 3, 16] {
            let pool = pool_of(threads);
            out.api_calls += 1;
            match pool.install(|| results(case)) {
                Ok(r) => compare(tag, "between_pool_sizes", &first, &r, &mut out),
                Err(e) => out.fail(format!("{}/panic/{}", tag, panic_class(&e)), e),
            }
            if !out.failures.is_empty() {
                return out;
            }
        }
        out.api_calls += 1;
        match ask_worker(case) {
            Ok((exact, floats, _threads)) => compare(tag, "between_processes", &first, &(exact, floats), &mut out),
            Err(e) => {
                if e.starts_with("worker: ") {
                    out.fail(format!("{}/worker_process_failed", tag), e);
                } else {
                    eprintln!("worker i/o problem (not a violation): {}", e);
                    std::process::exit(2);
                }
            }
        }
        match case {
            DetCase::Louvain { g, .. } => {
                let ng = g.norm();
                let comms = first.0["communities"].as_array().map(|a| a.len()).unwrap_or(0);
                out.class(format!("louvain_kind_{}", ng.spec().label()));
                out.class(format!("louvain_wmode_{}", g.wmode));
                out.nontrivial = ng.n >= 6 && matches!(g.wmode, 0 | 3 | 10) && comms >= 2;
            }
            DetCase::Gnp { .. } => {
                out.class("gnp");
                out.nontrivial = first.0["edges"].as_array().map_or(false, |a| !a.is_empty());
            }
            DetCase::Algos { g } => {
                out.class("algos");
                out.nontrivial = !g.norm().edges.is_empty();
            }
        }
        out
    }
}
