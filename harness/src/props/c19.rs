//! C19 — the GraphML reader never panics: any input yields Ok(valid graph) or Err.

use crate::coherent::*;
use crate::core::*;
use crate::engine::*;
use crate::model::*;
use crate::props::c14;
use crate::xmlgen::*;
use graphrs::readwrite::graphml;
use graphrs::Graph;
use proptest::prelude::*;
use proptest::strategy::BoxedStrategy;
use serde::{Deserialize, Serialize};

#[derive(Clone, Debug, Serialize, Deserialize)]
pub enum ReaderCase {
    /// G1 (fault = None) and G2 (fault = Some)
    Ast { doc: DocAst, spec: u8, fault: Option<Fault> },
    /// G3 on a grammar document
    CorruptAst { doc: DocAst, spec: u8, pos: u32, kind: u8, ch: u8 },
    /// G3 on the library's own output
    CorruptWritten { graph: c14::RtCase, spec: u8, pos: u32, kind: u8, ch: u8 },
    /// literal text (enumerated fault block, fuzzer findings)
    Raw { text: String, spec: u8 },
    /// an optional grammar fault followed by 2..=5 point corruptions (pos, kind, ch)
    MultiCorrupt { doc: DocAst, spec: u8, fault: Option<Fault>, points: Vec<(u32, u8, u8)> },
}

pub struct C19;

/// model of a parsed graph, built from the graph itself (for self-coherence of any Ok result)
fn model_of(g: &Graph<String, ()>) -> Model {
    let mut m = Model::new(specs_to_bits(&g.specs));
    m.nodes = g.get_all_nodes().iter().map(|n| (n.name.clone(), None)).collect();
    // per-pair insertion order: take it from the position-keyed store
    let snap = g.verif_snapshot();
    let mut lists = snap.edges_map.clone();
    lists.sort_by(|a, b| a.0.cmp(&b.0));
    for (_, l) in lists {
        for (u, v, w) in l {
            m.edges.push(MEdge { u, v, w, a: None });
        }
    }
    m
}

fn self_coherent(tag: &str, g: &Graph<String, ()>, out: &mut Outcome) {
    let m = model_of(g);
    let q = query_names(&m, false);
    let mut o2 = Outcome::new();
    coherent_with(g, &m, &q, false, &mut o2, |_| None);
    traversal_check(g, &m, &mut o2);
    out.api_calls += o2.api_calls;
    for f in o2.failures {
        out.fail(format!("{}/ok_graph_incoherent/{}", tag, f.sig), f.msg);
    }
}

/// totality: no panic; Ok graphs are coherent. Returns the result for further checks.
fn read_total(tag: &str, text: &str, spec: u8, out: &mut Outcome) -> Option<Result<Graph<String, ()>, graphrs::Error>> {
    out.api_calls += 1;
    let specs = SpecBits::from_index(spec).to_specs();
    match guard(|| graphml::read_graphml_string(text, specs)) {
        Err(p) => {
            let short: String = text.chars().take(400).collect();
            out.fail(format!("read_graphml_string/panic/{}/{}", panic_class(&p), tag), format!("{} -- document: {}", p, short));
            None
        }
        Ok(r) => {
            if let Ok(g) = &r {
                self_coherent("read_graphml_string", g, out);
            }
            Some(r)
        }
    }
}

/// fixed short documents for the exhaustive single-point fault block
pub fn golden_docs() -> Vec<String> {
    vec![
        "<graphml><key id=\"w\" for=\"edge\" attr.name=\"weight\" attr.type=\"double\"/><graph edgedefault=\"directed\"><node id=\"a\"/><node id=\"b\"></node><edge source=\"a\" target=\"b\"><data key=\"w\">1.5</data></edge></graph></graphml>".to_string(),
        "<?xml version=\"1.0\"?><graphml xmlns=\"http://graphml.graphdrawing.org/xmlns\"><graph id='G' edgedefault='undirected'><node id='n&amp;1'/><node id='n2'/><edge source='n2' target='n&amp;1'/><!-- c --></graph></graphml>".to_string(),
        "<graphml><graph edgedefault=\"undirected\"><edge source=\"x\" target=\"y\"><data key=\"weight\">2</data><data key=\"c\">t</data></edge><node id=\"x\"><data key=\"c\">&lt;</data></node></graph></graphml>".to_string(),
    ]
}

impl Prop for C19 {
    type Case = ReaderCase;
    fn id(&self) -> &'static str {
        "C19"
    }
    fn level(&self) -> &'static str {
        "fault_enumeration"
    }
    fn rule(&self) -> String {
        "G1: documents serialised by the harness's own XML writer from an AST of a valid GraphML subset (attribute order and quoting, extra attributes, comments, PIs, whitespace, <edge/> vs <edge></edge>, custom or undeclared weight key, key with <default>, unknown elements, unrelated <data>), read under a generated GraphSpecs index: the result must equal the C01 model applied to the document's node and edge elements (or its error kind) with the declared directedness. G2: the same AST with one of 24 injected faults; a missing id/source/target/edgedefault or an invalid edgedefault must be refused (any error), the others only totality; a valid document may be refused (the property allows an error for any input) but if a graph is returned it must be the expected one. G3: single-point corruptions (delete, duplicate, truncate, replace by one of 12 characters; valid UTF-8) of G1 documents and of write_graphml_string output, at every position x every kind for 3 fixed short documents (exhaustive fault block) and sampled otherwise; G4: an optional fault followed by 2..=5 point corruptions. Every Ok graph from any generator must pass the C02 coherence check and the C03 index check. Non-trivial = the document reaches the element loop (contains '<graph' with attributes) and exercises >= 1 fault or corruption, or >= 1 weighted edge; distinct = distinct serialised case.".into()
    }
    fn assumptions(&self) -> Vec<String> {
        vec![
            "the G1 subset keeps weight <data> as the first child of a non-self-closing <edge>, without comments or CDATA inside, and uses for=\"edge\" keys".into(),
            "G1 uses a single <graph>; nested or multiple graphs are only checked for totality".into(),
        ]
    }
    fn enumerate(&self, tier: Tier) -> Vec<ReaderCase> {
        let mut v = vec![];
        for (i, d) in golden_docs().into_iter().enumerate() {
            v.push(ReaderCase::Raw { text: d.clone(), spec: (i * 7) as u8 });
            let len = d.chars().count();
            let step = tier.pick(1, 1);
            for pos in (0..len).step_by(step) {
                for kind in 0..3u8 {
                    v.push(ReaderCase::Raw { text: corrupt(&d, pos, kind, 'x'), spec: (pos % 96) as u8 });
                }
                for ch in REPLACEMENTS {
                    v.push(ReaderCase::Raw { text: corrupt(&d, pos, 3, ch), spec: (pos % 96) as u8 });
                }
            }
        }
        v
    }
    fn strategy(&self, _tier: Tier) -> BoxedStrategy<ReaderCase> {
        let rt = (0u8..8, proptest::collection::vec("[a-c<&\" ]{0,3}", 0..4), proptest::collection::vec((any::<u8>(), any::<u8>(), proptest::option::of((0i32..40).prop_map(|k| (k as f64 / 4.0).to_bits()))), 0..5))
            .prop_map(|(kind, names, edges)| c14::RtCase { kind, names, edges, via_file: false });
        prop_oneof![
            4 => (doc(), 0u8..96).prop_map(|(doc, spec)| ReaderCase::Ast { doc, spec, fault: None }),
            4 => (doc(), 0u8..96, fault()).prop_map(|(doc, spec, f)| ReaderCase::Ast { doc, spec, fault: Some(f) }),
            5 => (doc(), 0u8..96, any::<u32>(), 0u8..4, 0u8..12).prop_map(|(doc, spec, pos, kind, ch)| ReaderCase::CorruptAst { doc, spec, pos, kind, ch }),
            3 => (rt, 0u8..96, any::<u32>(), 0u8..4, 0u8..12).prop_map(|(graph, spec, pos, kind, ch)| ReaderCase::CorruptWritten { graph, spec, pos, kind, ch }),
            3 => (doc(), 0u8..96, proptest::option::of(fault()), proptest::collection::vec((any::<u32>(), 0u8..4, 0u8..12), 2..=5)).prop_map(|(doc, spec, fault, points)| ReaderCase::MultiCorrupt { doc, spec, fault, points }),
        ]
        .boxed()
    }
    fn extra_evidence(&self, root: &std::path::Path) -> serde_json::Value {
        crate::engine::fuzz_stats(root, "graphml_read")
    }
    fn case_timeout_s(&self) -> u64 {
        20
    }
    fn random_cases(&self, tier: Tier) -> u32 {
        tier.pick(400_000, 4_000_000)
    }
    fn hang_is_violation(&self) -> bool {
        true
    }
    fn check(&self, case: &ReaderCase) -> Outcome {
        let mut out = Outcome::new();
        match case {
            ReaderCase::Raw { text, spec } => {
                read_total("raw", text, *spec, &mut out);
                out.class("raw_single_point_fault");
                out.nontrivial = text.contains("<graph ");
            }
            ReaderCase::CorruptAst { doc, spec, pos, kind, ch } => {
                let base = write_doc(doc, None);
                let text = corrupt(&base, *pos as usize, *kind, REPLACEMENTS[*ch as usize % REPLACEMENTS.len()]);
                read_total("corrupted_grammar_document", &text, *spec, &mut out);
                out.class(format!("corruption_kind_{}", kind % 4));
                out.nontrivial = text.contains("<graph ");
            }
            ReaderCase::MultiCorrupt { doc, spec, fault, points } => {
                let fault = fault.as_ref().filter(|f| fault_applies(doc, f));
                let mut text = write_doc(doc, fault);
                for (pos, kind, ch) in points {
                    // (truncation only as the last step, or nothing is left to corrupt)
                    let kind = if kind % 4 == 2 && (pos % 3 != 0) { 0 } else { *kind };
                    text = corrupt(&text, *pos as usize, kind, REPLACEMENTS[*ch as usize % REPLACEMENTS.len()]);
                }
                read_total("multi_point_corruption", &text, *spec, &mut out);
                out.class(format!("multi_point_corruption_{}", points.len()));
                out.nontrivial = text.contains("<graph ");
            }
            ReaderCase::CorruptWritten { graph, spec, pos, kind, ch } => {
                let (g, _, _) = c14::build(graph);
                if let Ok(Ok(base)) = guard(|| graphml::write_graphml_string(&g)) {
                    let text = corrupt(&base, *pos as usize, *kind, REPLACEMENTS[*ch as usize % REPLACEMENTS.len()]);
                    read_total("corrupted_library_output", &text, *spec, &mut out);
                    out.nontrivial = text.contains("<graph ");
                }
                out.class("corrupted_library_output");
            }
            ReaderCase::Ast { doc, spec, fault } => {
                let fault = fault.as_ref().filter(|f| fault_applies(doc, f));
                let text = write_doc(doc, fault);
                let tag = match fault {
                    None => "valid_document".to_string(),
                    Some(f) => format!("fault_{}", format!("{:?}", f).split('(').next().unwrap_or("x")),
                };
                let res = read_total(&tag, &text, *spec, &mut out);
                out.class(tag.clone());
                match (fault, res) {
                    (_, None) => {}
                    (Some(f), Some(r)) => {
                        if fault_must_be_read_error(f) {
                            // a graph cannot contain "exactly the node and edge elements" of a document
                            // whose node lacks an id / whose edge lacks an endpoint, nor have a directedness
                            // that was not (validly) declared: such documents must be refused (any error kind)
                            if r.is_ok() {
                                out.fail(format!("read_graphml_string/{}/accepted", tag), format!("document: {}", text));
                            }
                        }
                    }
                    (None, Some(r)) => {
                        // expected graph under the supplied specs
                        let (nodes, edges) = expected(doc);
                        let sb = SpecBits { directed: doc.directed, ..SpecBits::from_index(*spec) };
                        let mut m = Model::new(sb);
                        for n in &nodes {
                            m.add_node(n, None);
                        }
                        let mr = m.add_edges(&edges);
                        match r {
                            Err(e) => {
                                // the property allows an error for any input; it only constrains the
                                // graph when one is returned. Rejections are counted, not failed
                                // (acceptance of the library's own output is C14's subject).
                                let k = kind_of(&e);
                                if k != mr {
                                    out.class(format!("valid_document_rejected_with_{}_model_{}", k, mr));
                                }
                            }
                            Ok(g) => {
                                if mr != "Ok" {
                                    out.fail(format!("read_graphml_string/valid_document/outcome_model_{}_graph_Ok", mr), format!("document: {}", text));
                                } else {
                                    if g.specs.directed != doc.directed {
                                        out.fail(
                                            if doc.items.is_empty() && doc.self_closing_empty_graph { "read_graphml_string/directedness/self_closing_graph_element_ignored" } else { "read_graphml_string/directedness/ne_declared" },
                                            format!("declared {} got {} -- document: {}", doc.directed, g.specs.directed, text),
                                        );
                                    } else {
                                        let q = query_names(&m, false);
                                        let mut o2 = Outcome::new();
                                        coherent_with(&g, &m, &q, false, &mut o2, |_| None);
                                        out.api_calls += o2.api_calls;
                                        for f in o2.failures {
                                            out.fail(format!("read_graphml_string/valid_document/ne_document/{}", f.sig), format!("{} -- document: {}", f.msg, text));
                                        }
                                    }
                                }
                            }
                        }
                    }
                }
                let weighted_edge = doc.items.iter().any(|i| matches!(i, Item::Edge { weight: Some(_), .. }));
                out.nontrivial = fault.is_some() || weighted_edge;
            }
        }
        out
    }
}
