//! C06 — closeness centrality equals its definition for every graph.

use crate::core::*;
use crate::engine::*;
use crate::graphcase::*;
use crate::oracle::*;
use crate::props::c05::{compare_node_map, edges_large, edges_small};
use graphrs::algorithms::centrality::closeness::closeness_centrality;
use proptest::prelude::*;
use proptest::strategy::BoxedStrategy;

pub struct C06;

/// marker in `GraphCase::shape`: a directed hierarchy, `big_n` managers pointing to one root and
/// `big_seed` members pointing to each manager
pub const FUNNEL: u8 = 254;

/// Closeness of the hierarchy in closed form: the root is reached by everybody (managers at
/// distance 1, members at distance 2), a manager by its members at distance 1, a member by nobody.
fn funnel(case: &GraphCase) -> Outcome {
    use crate::model::{mk_edge, mk_node, SpecBits, G};
    let mut out = Outcome::new();
    let (mg, mb) = (case.big_n as usize, case.big_seed as usize);
    // three sinks, each fed by one member: they reach nobody, so a search *into* the root that
    // follows an edge of the wide member level forwards would pick them up
    const SINKS: usize = 3;
    let inner = 1 + mg + mg * mb;
    let n = inner + SINKS;
    let name = |i: usize| format!("h{:06}", (i * 7919 + 13) % 1_000_003);
    let mut g = G::new(SpecBits::kind(true, false, false).to_specs());
    g.add_nodes((0..n).map(|i| mk_node(&name(i), None)).collect());
    for k in 0..mg {
        let manager = 1 + k;
        g.add_edge(mk_edge(&name(manager), &name(0), f64::NAN)).expect("edge");
        for j in 0..mb {
            let member = 1 + mg + k * mb + j;
            g.add_edge(mk_edge(&name(member), &name(manager), f64::NAN)).expect("edge");
        }
    }
    for k in 0..SINKS {
        let member = 1 + mg + (k % mg) * mb + k / mg;
        g.add_edge(mk_edge(&name(member), &name(inner + k), f64::NAN)).expect("edge");
    }
    for wf in [true, false] {
        out.api_calls += 1;
        let ctx = format!("closeness_centrality[hops,wf={}]", wf);
        match guard(|| closeness_centrality(&g, false, wf)) {
            Err(p) => out.fail(format!("{}/panic/{}", ctx, panic_class(&p)), format!("hierarchy of {} nodes: {}", n, p)),
            Ok(Err(e)) => out.fail(format!("{}/error/{}", ctx, kind_of(&e)), e.message.clone()),
            Ok(Ok(m)) => {
                if m.len() != n {
                    out.fail(format!("{}/keys/hierarchy", ctx), format!("{} entries for {} nodes", m.len(), n));
                    continue;
                }
                let scale = |reached: f64| if wf { reached / (n as f64 - 1.0) } else { 1.0 };
                let root_reached = (inner - 1) as f64;
                let root = root_reached / (mg as f64 + 2.0 * (mg * mb) as f64) * scale(root_reached);
                let manager = (mb as f64 / mb as f64) * scale(mb as f64);
                for (i, want) in [(0usize, root), (1, manager), (mg, manager), (1 + mg, 0.0), (inner - 1, 0.0), (inner, scale(1.0)), (n - 1, scale(1.0))] {
                    let got = m.get(&name(i)).copied().unwrap_or(f64::NAN);
                    if !approx(got, want, 1e-12, 1e-15) {
                        out.fail(format!("{}/ne_definition/hierarchy", ctx), format!("hierarchy of {} nodes ({} managers x {} members): node {} has {} instead of {}", n, mg, mb, i, got, want));
                        break;
                    }
                }
                // every manager has the same value, every member 0
                let bad = (1..n).find(|i| {
                    let want = if *i <= mg { manager } else if *i < inner { 0.0 } else { scale(1.0) };
                    !approx(m.get(&name(*i)).copied().unwrap_or(f64::NAN), want, 1e-12, 1e-15)
                });
                if let Some(i) = bad {
                    out.fail(format!("{}/ne_definition/hierarchy", ctx), format!("hierarchy of {} nodes: node {} has {:?}", n, i, m.get(&name(i))));
                }
            }
        }
        if !out.failures.is_empty() {
            break;
        }
    }
    out.class("hierarchy_of_more_than_65536_nodes");
    out.nontrivial = true;
    out
}

impl Prop for C06 {
    type Case = GraphCase;
    fn id(&self) -> &'static str {
        "C06"
    }
    fn rule(&self) -> String {
        "graphs of all 8 kinds, n in 0..=10 and 21..=34 (parallel path), shapes / shuffled insertion order as C04, unweighted / positive dyadic / tie-rich weights; each graph is evaluated for weighted x wf_improved, and (weighted single-edge graphs) once more after an existing edge was replaced by a heavier one under KeepLast between two calls. Oracle: Floyd-Warshall over the cheapest parallel edge; for u, R = nodes with finite distance TO u (incoming on directed graphs), value (|R|-1)/sum d(v,u), times (|R|-1)/(n-1) with wf_improved, 0 when |R| = 1; tolerance 1e-12 relative (dyadic sums are exact). Exhaustive block: all graphs on <= 3 nodes of the single-edge kinds. Non-trivial = a directed graph where some node's incoming and outgoing distance sums differ, or a disconnected graph evaluated with wf_improved; distinct = distinct serialised case. Name-type independence: for every graph of <= 12 nodes and one in eight up to 64 (34 for path-returning calls) the same calls are repeated with a user-defined node-name type (lossy Display, heavily colliding Hash, Ord unrelated to insertion order) and must give the same order-independent results as with String names (floats within 1e-9). Each call runs in the ambient 16-thread pool or, selected by the case, inside a shared rayon pool of 1, 3, 24 or 64 threads (more threads than nodes for the 21..=60-node class). Exhaustive block also holds two directed hierarchies of 66 051 and 75 301 nodes (managers pointing to a root, members to managers) whose closeness has a closed form. Round 10: the two hierarchies carry three sinks, each fed by one member of the wide level (they reach nobody; the root's reach and distance sum must not include them, their own closeness is that of one node at distance 1).".into()
    }
    fn assumptions(&self) -> Vec<String> {
        vec!["positive weights".into()]
    }
    fn enumerate(&self, _tier: Tier) -> Vec<GraphCase> {
        let mut v = vec![];
        for kind in [0u8, 1, 4, 5] {
            for n in 0..=3u8 {
                for wmode in [0u8, 3] {
                    if kind == 5 && n == 3 && wmode == 3 {
                        continue;
                    }
                    v.extend(enumerate_small(kind, n, wmode));
                }
            }
        }
        // shallow hierarchies of more than 2^16 nodes (closeness is affordable there: every
        // node is reached from few others, except the root): 75 301 and 66 051 nodes
        for (managers, members) in [(300u32, 250u64), (254, 259)] {
            v.push(GraphCase { kind: 1, n: 0, perm: 0, shape: FUNNEL, edges: vec![], wmode: 0, big_n: managers, big_seed: members });
        }
        v
    }
    fn strategy(&self, _tier: Tier) -> BoxedStrategy<GraphCase> {
        let small = graph_strategy(&ALL_KINDS, 0, 10, edges_small, &[0, 1, 1, 3, 5, 6], 4);
        let mid = graph_strategy(&ALL_KINDS, 11, 20, edges_large, &[0, 1, 3], 3);
        let large = graph_strategy(&ALL_KINDS, 21, 34, edges_large, &[0, 1, 3], 3);
        let boundary = boundary_graph_strategy(&ALL_KINDS, edges_large, &[0, 1, 3], 3, 255);
        let big = big_graph_strategy(&[0, 1], 300, 3000, &[0, 1]);
        prop_oneof![9000 => small, 600 => mid, 300 => large, 30 => boundary, 1 => big].boxed()
    }
    fn random_cases(&self, tier: Tier) -> u32 {
        tier.pick(200_000, 2_000_000)
    }
    fn check(&self, case: &GraphCase) -> Outcome {
        if case.shape == FUNNEL {
            return funnel(case);
        }
        let mut out = Outcome::new();
        let ng = case.norm();
        let graph = ng.build();
        let n = ng.n;
        let mut nontrivial = false;
        let modes: Vec<bool> = if ng.weighted { vec![true, false] } else { vec![false] };
        for weighted in modes {
            let d = if n <= 260 { floyd(&weight_matrix(&ng, weighted)) } else { vec![] };
            let disconnected = d.iter().any(|r| r.iter().any(|x| *x == INF));
            if n > 260 {
                nontrivial = true;
            }
            if ng.directed && n <= 260 {
                for u in 0..n {
                    let inc: f64 = (0..n).filter(|v| d[*v][u] < INF).map(|v| d[v][u]).sum();
                    let outg: f64 = (0..n).filter(|v| d[u][*v] < INF).map(|v| d[u][v]).sum();
                    if inc != outg {
                        nontrivial = true;
                    }
                }
            }
            if disconnected && n >= 3 {
                nontrivial = true;
            }
            for wf in [false, true] {
                let want = if n <= 260 { closeness(&d, wf) } else { closeness_fast(&ng, weighted, wf) };
                if n <= 10 {
                    let f = closeness_fast(&ng, weighted, wf);
                    assert!(want.iter().zip(&f).all(|(x, y)| approx(*x, *y, 1e-12, 1e-15)), "harness bug: fast closeness oracle disagrees with Floyd-Warshall");
                }
                let ctx = format!("closeness_centrality[{},wf={}]", if weighted { "weighted" } else { "hops" }, wf);
                out.api_calls += 1;
                match guard(|| crate::props::c17::in_some_pool(case.perm as u64 / 8 + wf as u64, || closeness_centrality(&graph, weighted, wf))) {
                    Err(p) => out.fail(format!("{}/panic/{}", ctx, panic_class(&p)), p),
                    Ok(Err(e)) => out.fail(format!("{}/error/{}", ctx, kind_of(&e)), e.message.clone()),
                    Ok(Ok(got)) => compare_node_map(&ng, &got, &want, 1e-12, 1e-15, &ctx, &mut out),
                }
            }
        }
        // call - mutate - call: an earlier call must not influence a later one. On a KeepLast graph an
        // existing edge is replaced by a heavier one between two calls (node and edge counts stay
        // the same) and the second answer must be the definition's value for the new weights.
        if !ng.multi && ng.weighted && n >= 2 && n <= 40 && !ng.edges.is_empty() && out.failures.is_empty() {
            let spec = crate::model::SpecBits { dedupe: 2, ..ng.spec() };
            let mut g2 = crate::model::G::new(spec.to_specs());
            for i in &ng.order {
                g2.add_node(crate::model::mk_node(&ng.names[*i], None));
            }
            for (i, j, w) in &ng.edges {
                let _ = g2.add_edge(crate::model::mk_edge(&ng.names[*i], &ng.names[*j], *w));
            }
            out.api_calls += 2;
            let _ = guard(|| closeness_centrality(&g2, true, false));
            let k = (case.perm as usize) % ng.edges.len();
            let mut ng2 = ng.clone();
            ng2.edges[k].2 += 2.5;
            let (i, j, w) = ng2.edges[k];
            let _ = g2.add_edge(crate::model::mk_edge(&ng.names[i], &ng.names[j], w));
            let want = closeness(&floyd(&weight_matrix(&ng2, true)), false);
            match guard(|| closeness_centrality(&g2, true, false)) {
                Err(p) => out.fail(format!("closeness_centrality[after_replacement]/panic/{}", panic_class(&p)), p),
                Ok(Err(e)) => out.fail(format!("closeness_centrality[after_replacement]/error/{}", kind_of(&e)), e.message.clone()),
                Ok(Ok(got)) => compare_node_map(&ng2, &got, &want, 1e-12, 1e-15, "closeness_centrality[after_replacement]", &mut out),
            }
            out.class("call_mutate_call");
        }
        out.class(format!("kind_{}", ng.spec().label()));
        out.class(format!("wmode_{}", case.wmode));
        out.class(if n > 260 { "large_graph_300_to_3000_nodes" } else if n <= 10 { "n<=10" } else if n <= 20 { "n_11_to_20" } else if n <= 34 { "n>20_parallel_path" } else { "boundary_size_35_to_255" });
        crate::altkey::maybe_check(&ng, crate::altkey::Group::Closeness, case.perm as u64, &mut out);
        out.nontrivial = nontrivial;
        out
    }
}
