//! C12 — modularity equals Newman's formula and only true partitions are accepted.

use crate::core::*;
use crate::engine::*;
use crate::graphcase::*;
use graphrs::algorithms::community::partitions;
use proptest::collection::vec;
use proptest::prelude::*;
use proptest::strategy::BoxedStrategy;
use serde::{Deserialize, Serialize};
use std::collections::{BTreeSet, HashSet};

#[derive(Clone, Debug, Serialize, Deserialize)]
pub enum PMut {
    /// put node (i % n) additionally into block (b % blocks)
    Dup(u8, u8),
    /// remove node (i % n) from its block
    Drop(u8),
    /// overlap and omission that cancel in a size count: duplicate node i into another block and drop node j
    DupAndDrop(u8, u8, u8),
    /// add a name that is not in the graph to block b
    Foreign(u8),
    /// append a copy of block b
    DupBlock(u8),
}

#[derive(Clone, Debug, Serialize, Deserialize)]
pub struct PartCase {
    pub g: GraphCase,
    pub nblocks: u8,
    pub assign: Vec<u8>,
    pub empty_blocks: u8,
    pub muts: Vec<PMut>,
    pub weighted: bool,
    /// resolution = (res % 12 + 1) / 4, None when res == 255
    pub res: u8,
}

pub struct C12;

pub fn build_family(ng: &NormGraph, c: &PartCase) -> Vec<BTreeSet<String>> {
    let n = ng.n;
    let nb = (c.nblocks as usize % n.max(1)) + 1;
    let mut blocks: Vec<BTreeSet<String>> = vec![BTreeSet::new(); nb];
    for i in 0..n {
        let b = c.assign.get(i).copied().unwrap_or(0) as usize % nb;
        blocks[b].insert(ng.names[i].clone());
    }
    for _ in 0..(c.empty_blocks % 3) {
        blocks.push(BTreeSet::new());
    }
    for m in &c.muts {
        let nb = blocks.len();
        match m {
            PMut::Dup(i, b) if n > 0 => {
                blocks[*b as usize % nb].insert(ng.names[*i as usize % n].clone());
            }
            PMut::Drop(i) if n > 0 => {
                let name = &ng.names[*i as usize % n];
                for b in blocks.iter_mut() {
                    b.remove(name);
                }
            }
            PMut::DupAndDrop(i, b, j) if n > 0 => {
                let dropped = ng.names[*j as usize % n].clone();
                for bl in blocks.iter_mut() {
                    bl.remove(&dropped);
                }
                let dup = ng.names[*i as usize % n].clone();
                // insert into a block that does not already hold it
                let start = *b as usize % nb;
                for k in 0..nb {
                    let t = (start + k) % nb;
                    if !blocks[t].contains(&dup) {
                        blocks[t].insert(dup.clone());
                        break;
                    }
                }
            }
            PMut::Foreign(b) => {
                blocks[*b as usize % nb].insert("zz-foreign".to_string());
            }
            PMut::DupBlock(b) => {
                let copy = blocks[*b as usize % nb].clone();
                blocks.push(copy);
            }
            _ => {}
        }
    }
    blocks
}

pub fn is_true_partition(ng: &NormGraph, fam: &[BTreeSet<String>]) -> bool {
    let mut seen: BTreeSet<&String> = BTreeSet::new();
    for b in fam {
        for x in b {
            if ng.index_of(x).is_none() {
                return false;
            }
            if !seen.insert(x) {
                return false;
            }
        }
    }
    seen.len() == ng.n
}

/// Newman modularity from the statement's formula, on the edge list alone.
pub fn modularity_oracle(ng: &NormGraph, fam: &[Vec<usize>], weighted: bool, resolution: f64) -> f64 {
    let wt = |w: f64| if weighted { w } else { 1.0 };
    let m: f64 = ng.edges.iter().map(|e| wt(e.2)).sum();
    let mut q = 0.0;
    for c in fam {
        let inside = |i: usize| c.contains(&i);
        let lc: f64 = ng.edges.iter().filter(|e| inside(e.0) && inside(e.1)).map(|e| wt(e.2)).sum();
        let out_c: f64 = ng.edges.iter().filter(|e| inside(e.0)).map(|e| wt(e.2)).sum();
        let in_c: f64 = ng.edges.iter().filter(|e| inside(e.1)).map(|e| wt(e.2)).sum();
        if ng.directed {
            q += lc / m - resolution * out_c * in_c / (m * m);
        } else {
            let deg_c = out_c + in_c; // a self-loop contributes twice
            q += lc / m - resolution * (deg_c / (2.0 * m)) * (deg_c / (2.0 * m));
        }
    }
    q
}

impl Prop for C12 {
    type Case = PartCase;
    fn id(&self) -> &'static str {
        "C12"
    }
    fn rule(&self) -> String {
        "graphs of all 8 kinds, n in 1..=10; families built from a random true partition (1..n blocks, up to 2 empty blocks) followed by 0..3 mutations: duplicate a node into another block, drop a node, both at once (overlap and omission cancelling in a size count), add a foreign name, duplicate a block. Oracle: is_partition <=> pairwise disjoint, subset of N, union = N (set algebra); modularity of a true partition of a graph with >= 1 edge = formula of the statement evaluated on the edge list (parallel edges individually, self-loop once in L_c and twice in the degree, directed: out x in / m^2), weighted and unweighted, resolution in {None, k/4 for k = 1..12}, tolerance 1e-9; non-partitions => NotAPartition. Non-trivial = a true partition with >= 2 non-empty blocks and both intra- and inter-block edges, or an overlap+omission family, or a family with a foreign name; distinct = distinct serialised case. Name-type independence: is_partition and modularity are repeated with a user-defined node-name type (lossy Display, colliding Hash) and must agree with the String-named run.".into()
    }
    fn assumptions(&self) -> Vec<String> {
        vec!["empty communities are allowed in a partition (the statement only requires disjointness, containment and cover)".into(), "weighted = true is only used when every edge is weighted".into()]
    }
    fn enumerate(&self, _tier: Tier) -> Vec<PartCase> {
        crate::huge::huge_cases().into_iter().map(|g| PartCase { g, nblocks: 0, assign: vec![], empty_blocks: 0, muts: vec![], weighted: true, res: 255 }).collect()
    }
    fn strategy(&self, _tier: Tier) -> BoxedStrategy<PartCase> {
        fn me(n: usize) -> usize {
            n * 2 + 2
        }
        let m = prop_oneof![
            (any::<u8>(), any::<u8>()).prop_map(|(a, b)| PMut::Dup(a, b)),
            any::<u8>().prop_map(PMut::Drop),
            (any::<u8>(), any::<u8>(), any::<u8>()).prop_map(|(a, b, c)| PMut::DupAndDrop(a, b, c)),
            any::<u8>().prop_map(PMut::Foreign),
            any::<u8>().prop_map(PMut::DupBlock),
        ];
        (
            prop_oneof![240 => graph_strategy(&ALL_KINDS, 1, 10, me, &[0, 1, 1, 6, 8, 9], 3), 20 => graph_strategy(&ALL_KINDS, 11, 25, me, &[0, 1], 3), 1 => boundary_graph_strategy(&ALL_KINDS, me, &[0, 1], 3, 255)],
            any::<u8>(),
            vec(any::<u8>(), 255),
            prop_oneof![4 => Just(0u8), 1 => 1u8..3],
            prop_oneof![5 => Just(vec![]), 5 => vec(m, 1..=3)],
            any::<bool>(),
            prop_oneof![1 => Just(255u8), 3 => any::<u8>()],
        )
            .prop_map(|(g, nblocks, assign, empty_blocks, muts, weighted, res)| PartCase { g, nblocks, assign, empty_blocks, muts, weighted, res })
            .boxed()
    }
    fn random_cases(&self, tier: Tier) -> u32 {
        tier.pick(500_000, 5_000_000)
    }
    fn check(&self, case: &PartCase) -> Outcome {
        if case.g.big_n > 60_000 {
            // the fixed huge-graph cases (more than 2^16 nodes): blocks of 1000 positions, linear oracle
            let mut out = Outcome::new();
            let ng = case.g.norm();
            let g = ng.build();
            crate::huge::modularity(&g, &ng, &mut out);
            out.class("huge_graph_66003_nodes");
            out.nontrivial = true;
            return out;
        }
        let mut out = Outcome::new();
        let ng = case.g.norm();
        let graph = ng.build();
        let fam = build_family(&ng, case);
        let communities: Vec<HashSet<String>> = fam.iter().map(|b| b.iter().cloned().collect()).collect();
        let truth = is_true_partition(&ng, &fam);
        let overlap = {
            let mut seen = BTreeSet::new();
            fam.iter().flatten().any(|x| !seen.insert(x))
        };
        let foreign = fam.iter().flatten().any(|x| ng.index_of(x).is_none());
        let covered: BTreeSet<&String> = fam.iter().flatten().collect();
        let missing = ng.names.iter().any(|x| !covered.contains(x));
        out.api_calls += 1;
        match guard(|| partitions::is_partition(&graph, &communities)) {
            Err(p) => out.fail(format!("is_partition/panic/{}", panic_class(&p)), p),
            Ok(got) => {
                if got != truth {
                    let class = if got && overlap && missing {
                        "accepted_overlap_plus_omission"
                    } else if got && foreign {
                        "accepted_foreign_name"
                    } else if got {
                        "accepted_non_partition"
                    } else {
                        "rejected_true_partition"
                    };
                    out.fail(format!("is_partition/eq_set_algebra/{}", class), format!("is_partition({:?}) = {} on nodes {:?}", fam, got, ng.names));
                }
            }
        }
        let weighted = case.weighted && ng.weighted;
        let resolution = if case.res == 255 { None } else { Some(((case.res % 12) as f64 + 1.0) / 4.0) };
        out.api_calls += 1;
        match guard(|| partitions::modularity(&graph, &communities, weighted, resolution)) {
            Err(p) => out.fail(format!("modularity/panic/{}", panic_class(&p)), p),
            Ok(Err(e)) => {
                if truth {
                    out.fail(format!("modularity/true_partition_rejected/{}", kind_of(&e)), format!("{:?}", fam));
                } else {
                    out.check(kind_of(&e) == "NotAPartition", "modularity/non_partition/error_kind", || kind_of(&e));
                }
            }
            Ok(Ok(q)) => {
                if !truth {
                    out.fail(
                        if overlap && missing { "modularity/non_partition_accepted/overlap_plus_omission" } else { "modularity/non_partition_accepted/other" },
                        format!("modularity({:?}) = {} but the family is not a partition of {:?}", fam, q, ng.names),
                    );
                } else if !ng.edges.is_empty() && (!weighted || ng.edges.iter().map(|e| e.2).sum::<f64>().abs() >= 0.25) {
                    // (with signed weights the total can cancel; the formula divides by it)
                    let idx: Vec<Vec<usize>> = fam.iter().map(|b| b.iter().map(|x| ng.index_of(x).unwrap()).collect()).collect();
                    let want = modularity_oracle(&ng, &idx, weighted, resolution.unwrap_or(1.0));
                    if !approx(q, want, 1e-9, 1e-12) {
                        let class = if ng.has_loop() { "self_loops" } else if ng.has_parallel() { "parallel_edges" } else if ng.directed { "directed" } else { "undirected" };
                        out.fail(format!("modularity/eq_formula/{}", class), format!("modularity = {} but the formula gives {} (family {:?}, weighted {}, resolution {:?})", q, want, fam, weighted, resolution));
                    }
                }
            }
        }
        // the same family with a user-defined node-name type (values only where the formula is
        // well-conditioned, as above)
        if !truth || ng.edges.is_empty() || !weighted || ng.edges.iter().map(|e| e.2).sum::<f64>().abs() >= 0.25 {
            let fam_idx: Vec<Vec<Option<usize>>> = fam.iter().map(|b| b.iter().map(|x| ng.index_of(x)).collect()).collect();
            if ng.n <= 12 || case.g.perm % 8 == 0 {
                crate::altkey::check_partition_name_type(&ng, &fam_idx, weighted, resolution, &mut out);
            }
        }
        out.class(format!("kind_{}", ng.spec().label()));
        out.class(if truth { "true_partition" } else { "not_a_partition" });
        if overlap && missing {
            out.class("overlap_plus_omission");
        }
        if foreign {
            out.class("foreign_name");
        }
        if weighted {
            out.class("weighted");
        }
        if weighted && ng.edges.iter().any(|e| e.2 < 0.0) {
            out.class("signed_weights");
        }
        let nonempty = fam.iter().filter(|b| !b.is_empty()).count();
        let block_of = |i: usize| fam.iter().position(|b| b.contains(&ng.names[i]));
        let intra = ng.edges.iter().any(|e| block_of(e.0) == block_of(e.1));
        let inter = ng.edges.iter().any(|e| block_of(e.0) != block_of(e.1));
        out.nontrivial = (truth && nonempty >= 2 && intra && inter) || (overlap && missing) || foreign;
        out
    }
}
