//! C14 — GraphML write-then-read reproduces the graph exactly.

use crate::core::*;
use crate::engine::*;
use crate::model::{canon_edge, SpecBits};
use graphrs::readwrite::graphml;
use graphrs::{Edge, Graph, Node};
use proptest::collection::vec;
use proptest::prelude::*;
use proptest::strategy::BoxedStrategy;
use serde::{Deserialize, Serialize};
use std::sync::atomic::{AtomicU64, Ordering};

#[derive(Clone, Debug, Serialize, Deserialize)]
pub struct RtCase {
    /// bit0 directed, bit1 multi, bit2 self-loops
    pub kind: u8,
    pub names: Vec<String>,
    /// (u % n, v % n, weight bits; None = unweighted)
    pub edges: Vec<(u8, u8, Option<u64>)>,
    pub via_file: bool,
}

pub struct C14 {
    pub root: std::path::PathBuf,
}

static FILE_COUNTER: AtomicU64 = AtomicU64::new(0);

fn name_char() -> impl Strategy<Value = char> {
    prop_oneof![
        6 => prop::char::range('a', 'z'),
        2 => prop::char::range('0', '9'),
        4 => prop::sample::select(vec!['<', '>', '&', '\'', '"', ' ', '=', '/', ';', '#', ']', '[', '!', '-', '?', '%', '\\']),
        2 => prop::sample::select(vec!['\u{a0}', '\u{2028}', '\u{2029}', '\u{feff}', '\u{200b}', 'é', 'ß', '中', '\u{1F600}', '\u{10FFFF}', '\u{fffd}', '\u{e000}']),
        2 => any::<char>().prop_map(|c| if c.is_control() { 'x' } else { c }),
    ]
}

fn name() -> impl Strategy<Value = String> {
    prop_oneof![
        8 => vec(name_char(), 0..8).prop_map(|v| v.into_iter().collect::<String>()),
        1 => prop::sample::select(vec!["", " ", "  a  ", "]]>", "&amp;", "&#10;", "&lt;", "<!--", "-->", "<![CDATA[", "&", "&&", "\"'\"", "a\u{a0}b", "&unknown;", "%20", "<node id=\"x\"/>"]).prop_map(|s| s.to_string()),
        1 => vec(name_char(), 30..60).prop_map(|v| v.into_iter().collect::<String>()),
    ]
}

fn weight() -> impl Strategy<Value = Option<u64>> {
    let special: Vec<f64> = vec![0.0, -0.0, f64::MIN_POSITIVE, 5e-324, f64::MAX, f64::MIN, f64::INFINITY, f64::NEG_INFINITY, 1e308, -1e308, 0.1, 1.0 / 3.0, 1.0, 2.5, 1e-310, 123456789.125, 1e21, 1e-7, 9007199254740993.0];
    prop_oneof![
        2 => Just(None),
        3 => prop::sample::select(special).prop_map(|x| Some(x.to_bits())),
        3 => any::<u64>().prop_map(|b| if f64::from_bits(b).is_nan() { Some(1.5f64.to_bits()) } else { Some(b) }),
        1 => (-1000i32..1000).prop_map(|k| Some((k as f64 / 8.0).to_bits())),
        // neighbouring floats: a base value and the values one or two ulps away from it
        2 => (prop::sample::select(vec![0.3f64, 1.0 / 3.0, 1.0, 1e16, 2.5, 0.1, 1e-7, 123456.789]), -2i64..=2).prop_map(|(b, k)| Some((b.to_bits() as i64 + k) as u64)),
    ]
}

pub fn build(case: &RtCase) -> (Graph<String, ()>, Vec<String>, Vec<(String, String, f64)>) {
    let s = SpecBits::kind(case.kind & 1 == 1, case.kind & 2 == 2, case.kind & 4 == 4);
    let mut names: Vec<String> = vec![];
    for n in &case.names {
        if !names.contains(n) {
            names.push(n.clone());
        }
    }
    let mut g: Graph<String, ()> = Graph::new(s.to_specs());
    for n in &names {
        g.add_node(Node::from_name(n.clone()));
    }
    let mut edges = vec![];
    let mut seen = std::collections::HashSet::new();
    if !names.is_empty() {
        for (u, v, w) in &case.edges {
            let (i, j) = (*u as usize % names.len(), *v as usize % names.len());
            if i == j && !s.loops {
                continue;
            }
            let key = if !s.directed && i > j { (j, i) } else { (i, j) };
            if !s.multi && !seen.insert(key) {
                continue;
            }
            let w = w.map(f64::from_bits).unwrap_or(f64::NAN);
            let e = if w.is_nan() { Edge::new(names[i].clone(), names[j].clone()) } else { Edge::with_weight(names[i].clone(), names[j].clone(), w) };
            g.add_edge(e).unwrap_or_else(|e| panic!("harness bug: {:?}", e.kind));
            edges.push((names[i].clone(), names[j].clone(), w));
        }
    }
    (g, names, edges)
}

fn compare(tag: &str, g2: &Graph<String, ()>, directed: bool, names: &[String], edges: &[(String, String, f64)], out: &mut Outcome) {
    let n2: Vec<String> = g2.get_all_node_names().into_iter().cloned().collect();
    if n2 != names {
        let mut a = n2.clone();
        let mut b = names.to_vec();
        a.sort();
        b.sort();
        out.fail(if a == b { format!("{}/node_names/order", tag) } else { format!("{}/node_names/changed", tag) }, format!("read {:?} wrote {:?}", n2, names));
    }
    out.check(g2.specs.directed == directed, &format!("{}/directedness/changed", tag), || format!("{}", g2.specs.directed));
    let mut want: Vec<_> = edges.iter().map(|(u, v, w)| canon_edge(directed, u, v, *w)).collect();
    want.sort();
    let mut got: Vec<_> = g2.get_all_edges().iter().map(|e| canon_edge(directed, &e.u, &e.v, e.weight)).collect();
    got.sort();
    if got != want {
        let strip = |v: &Vec<(String, String, u64)>| v.iter().map(|e| (e.0.clone(), e.1.clone())).collect::<Vec<_>>();
        out.fail(
            if strip(&got) == strip(&want) { format!("{}/edges/weight_bits_changed", tag) } else { format!("{}/edges/pairs_changed", tag) },
            format!("read {:?} wrote {:?}", got, want),
        );
    }
}

impl Prop for C14 {
    type Case = RtCase;
    fn id(&self) -> &'static str {
        "C14"
    }
    fn rule(&self) -> String {
        "Graph<String,()> of all 8 kinds with 0..8 distinct node names drawn from a Unicode strategy that excludes only control characters (XML specials, ]]>, entity look-alikes, leading/trailing/inner spaces, the empty string, NBSP, U+2028/9, BOM, astral and private-use code points, names of 30-60 chars) and edges whose weight is NaN (unweighted) or f64::from_bits of any non-NaN pattern (signed zero, subnormals, MAX, +-inf, 2^53+1 ...), mixed within one graph, self-loops and parallel edges per kind. Oracle: read_graphml_string(write_graphml_string(g), g.specs) is Ok with the same ordered names, directedness and edge multiset with bit-identical weights; for one case in four the file variants are used as well (same bytes as the string variant, same graph). Non-trivial = some name contains a special / non-ASCII / blank / empty form and some edge has a non-integer or extreme weight; distinct = distinct serialised case. For the file variants the target path is absent, or already holds a longer or a shorter earlier export (one third each).".into()
    }
    fn assumptions(&self) -> Vec<String> {
        vec!["control characters (Unicode Cc) are excluded from names, as the property states".into(), "scratch files are written under /verif/work and removed".into()]
    }
    fn strategy(&self, _tier: Tier) -> BoxedStrategy<RtCase> {
        let small = (0u8..8, vec(name(), 0..8), vec((any::<u8>(), any::<u8>(), weight()), 0..12), prop::bool::weighted(0.25))
            .prop_map(|(kind, names, edges, via_file)| RtCase { kind, names, edges, via_file });
        // documents of 100-400 KiB with long non-ASCII names, always through the file variants:
        // block-wise I/O, buffer boundaries and size thresholds of the writer and reader
        let long_name = vec(prop_oneof![prop::char::range('\u{430}', '\u{44f}'), prop::char::range('\u{4e00}', '\u{4e80}'), prop::char::range('a', 'z'), Just('\u{1F600}')], 20..70).prop_map(|v| v.into_iter().collect::<String>());
        let big = (0u8..8, vec(long_name, 150..255), vec((any::<u8>(), any::<u8>(), weight()), 300..700))
            .prop_map(|(kind, names, edges)| RtCase { kind, names, edges, via_file: true });
        prop_oneof![3000 => small, 1 => big].boxed()
    }
    fn case_timeout_s(&self) -> u64 {
        30
    }
    fn random_cases(&self, tier: Tier) -> u32 {
        tier.pick(300_000, 3_000_000)
    }
    fn check(&self, case: &RtCase) -> Outcome {
        let mut out = Outcome::new();
        let (g, names, edges) = build(case);
        let directed = g.specs.directed;
        out.api_calls += 2;
        let text = match guard(|| graphml::write_graphml_string(&g)) {
            Err(p) => {
                out.fail(format!("write_graphml_string/panic/{}", panic_class(&p)), p);
                return out;
            }
            Ok(Err(e)) => {
                out.fail("write_graphml_string/io_error", format!("{}", e));
                return out;
            }
            Ok(Ok(t)) => t,
        };
        match guard(|| graphml::read_graphml_string(&text, g.specs.clone())) {
            Err(p) => out.fail(format!("read_graphml_string/panic/{}", panic_class(&p)), format!("{} -- document: {}", p, text)),
            Ok(Err(e)) => out.fail(format!("read_graphml_string/own_output_rejected/{}", kind_of(&e)), format!("{} -- document: {}", e.message, text)),
            Ok(Ok(g2)) => compare("roundtrip_string", &g2, directed, &names, &edges, &mut out),
        }
        if case.via_file && out.failures.is_empty() {
            let dir = self.root.join("work");
            let _ = std::fs::create_dir_all(&dir);
            let path = dir.join(format!("c14-{}-{}.graphml", std::process::id(), FILE_COUNTER.fetch_add(1, Ordering::Relaxed)));
            let ps = path.to_string_lossy().to_string();
            out.api_calls += 2;
            // the target may already exist (an earlier export to the same path): longer than the new
            // document, shorter, or absent
            match (names.len() + edges.len()) % 3 {
                1 => {
                    let _ = std::fs::write(&path, format!("{}{}<!-- an earlier, longer export -->\n", text, text));
                    out.class("target_exists_longer");
                }
                2 => {
                    let _ = std::fs::write(&path, &text.as_bytes()[..text.len() / 2]);
                    out.class("target_exists_shorter");
                }
                _ => out.class("target_absent"),
            }
            match guard(|| graphml::write_graphml_file(&g, &ps)) {
                Err(p) => out.fail(format!("write_graphml_file/panic/{}", panic_class(&p)), p),
                Ok(Err(e)) => {
                    eprintln!("cannot write scratch file {}: {}", ps, e);
                }
                Ok(Ok(())) => {
                    let bytes = std::fs::read(&path).unwrap_or_default();
                    out.check(bytes == text.as_bytes(), "write_graphml_file/ne_string_variant/bytes", || format!("file has {} bytes, string {}", bytes.len(), text.len()));
                    match guard(|| graphml::read_graphml_file(&ps, g.specs.clone())) {
                        Err(p) => out.fail(format!("read_graphml_file/panic/{}", panic_class(&p)), p),
                        Ok(Err(e)) => out.fail(format!("read_graphml_file/own_output_rejected/{}", kind_of(&e)), e.message.clone()),
                        Ok(Ok(g3)) => compare("roundtrip_file", &g3, directed, &names, &edges, &mut out),
                    }
                }
            }
            let _ = std::fs::remove_file(&path);
            out.class("via_file");
        }
        let special_name = names.iter().any(|n| n.is_empty() || n.chars().any(|c| !c.is_ascii_alphanumeric()));
        let special_weight = edges.iter().any(|e| !e.2.is_nan() && (e.2.fract() != 0.0 || e.2.abs() > 1e15 || e.2.is_infinite() || (e.2 == 0.0 && e.2.is_sign_negative())));
        out.class(format!("kind_{}", SpecBits::kind(case.kind & 1 == 1, case.kind & 2 == 2, case.kind & 4 == 4).label()));
        if special_name {
            out.class("special_name");
        }
        if special_weight {
            out.class("special_weight");
        }
        if text.len() > 65536 {
            out.class("document_larger_than_64KiB");
        }
        if edges.iter().any(|e| e.2.is_nan()) && edges.iter().any(|e| !e.2.is_nan()) {
            out.class("mixed_weighted_unweighted");
        }
        out.nontrivial = special_name && special_weight;
        out
    }
}
