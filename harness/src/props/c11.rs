//! C11 — clustering, triangle and transitivity values equal their definitions.

use crate::core::*;
use crate::engine::*;
use crate::graphcase::*;
use crate::oracle::*;
use graphrs::algorithms::cluster;
use proptest::prelude::*;
use proptest::strategy::BoxedStrategy;
use serde::{Deserialize, Serialize};
use std::collections::{BTreeMap, BTreeSet, HashMap};

#[derive(Clone, Debug, Serialize, Deserialize)]
pub struct ClusterCase {
    pub g: GraphCase,
    /// subset mask over node indices (bit i%32); 0 = None
    pub subset: u32,
    pub count_zeros: bool,
}

pub struct C11;

fn cmp_subset_map(ng: &NormGraph, got: &HashMap<String, f64>, want: &[f64], subset: &Option<Vec<usize>>, tol: f64, ctx: &str, out: &mut Outcome) {
    let keys: BTreeSet<usize> = match subset {
        None => (0..ng.n).collect(),
        Some(s) => s.iter().copied().collect(),
    };
    let got_keys: BTreeSet<usize> = got.keys().filter_map(|k| ng.index_of(k)).collect();
    if got_keys != keys || got.len() != keys.len() {
        out.fail(format!("{}/keys/ne_requested_nodes", ctx), format!("got {:?} want {:?}", got_keys, keys));
        return;
    }
    for i in keys {
        let x = got[&ng.names[i]];
        if !(0.0..=1.0 + 1e-12).contains(&x) {
            out.fail(format!("{}/range/outside_0_1", ctx), format!("node {}: {}", i, x));
            return;
        }
        if !approx(x, want[i], tol, 1e-12) {
            let class = if ng.has_loop() { "with_self_loops" } else if subset.is_some() { "subset" } else { "value" };
            out.fail(format!("{}/eq_definition/{}", ctx, class), format!("node {}: got {} want {}", i, x, want[i]));
            return;
        }
    }
}

impl Prop for C11 {
    type Case = ClusterCase;
    fn id(&self) -> &'static str {
        "C11"
    }
    fn rule(&self) -> String {
        "single-edge graphs (directed/undirected, with/without self-loops), n in 0..=10, dense enough for triangles and squares, unweighted or positive dyadic weights, isolated and degree-1 nodes included; node_names = None or a generated non-empty subset (proper subsets whose members have neighbours outside arise in about half the cases); plus multi-edge and directed graphs for the refusal clauses. Oracles are dense-matrix definitions on the loop-free graph: triangle counts, 2T/(d(d-1)), Fagiolo's (A+A^T)^3 form, Onnela/Fagiolo weighted forms with cube roots of weights normalised by the largest weight (tolerance 1e-9), transitivity = 3 triangles / triples, generalized degree histogram, Lind squares coefficient; every coefficient in [0,1]; subset call = full call restricted to the subset; WrongMethod on multi-edge graphs and, for triangles/transitivity/generalized_degree, on directed graphs. Exhaustive block: all undirected graphs on <= 4 nodes and directed on <= 3, each with None and every non-empty subset mask < 8. Non-trivial = the graph has >= 1 triangle (or square) and the call uses a proper subset with an outside neighbour, or a self-loop is present; distinct = distinct serialised case. Name-type independence: for every graph of <= 12 nodes and one in eight up to 64 (34 for path-returning calls) the same calls are repeated with a user-defined node-name type (lossy Display, heavily colliding Hash, Ord unrelated to insertion order) and must give the same order-independent results as with String names (floats within 1e-9). One eligible case in four (a stored self-loop) is checked after clearing the public specs.self_loops flag on the live graph. Round 9: weight modes of subnormal weights ((k+1) * 2^-1074..2^-1071) and of weights near the top of the range ((k+1) * 2^1000), on graphs whose edges all draw from the mode (ratios are ordinary numbers, reciprocals and products are not representable).".into()
    }
    fn assumptions(&self) -> Vec<String> {
        vec![
            "weighted values are only asserted when no self-loop outweighs every other edge, so that both readings of 'largest weight' agree".into(),
            "generalized_degree: the entry for 0 triangles may be present or absent; if present it must be the number of incident edges without triangles".into(),
            "square_clustering has no error channel, so the refusal clause is not applied to it; its values are asserted on undirected single-edge graphs only".into(),
            "average_clustering is only asserted when at least one coefficient is counted".into(),
        ]
    }
    fn enumerate(&self, _tier: Tier) -> Vec<ClusterCase> {
        let mut v = vec![];
        for (kind, nmax) in [(0u8, 4u8), (4, 3), (1, 3), (5, 2)] {
            for n in 0..=nmax {
                for g in enumerate_small(kind, n, 0) {
                    for subset in 0..(1u32 << n.min(3)) {
                        v.push(ClusterCase { g: g.clone(), subset, count_zeros: subset % 2 == 0 });
                    }
                }
            }
        }
        for g in crate::huge::huge_cases() {
            v.push(ClusterCase { g, subset: 0, count_zeros: true });
        }
        v
    }
    fn strategy(&self, _tier: Tier) -> BoxedStrategy<ClusterCase> {
        fn dense(n: usize) -> usize {
            n * n / 2 + 2
        }
        let single = graph_strategy(&SINGLE_KINDS, 0, 10, dense, &[0, 1, 1, 3, 5, 6, 16, 17], 3)
            .prop_map(|mut g| {
                // subnormal / near-overflow weights: only with edges that all draw their weight from the
                // mode (the shapes mix in weights of 1, and a ratio of 2^-1074 underflows in any product)
                if g.wmode >= 16 {
                    g.shape = 0;
                }
                g
            })
            .boxed();
        let multi = graph_strategy(&[2, 3, 6, 7], 0, 6, dense, &[0, 1], 2);
        fn medium(n: usize) -> usize {
            n * 3
        }
        let larger = graph_strategy(&SINGLE_KINDS, 11, 24, medium, &[0, 1], 3);
        fn sparse_tri(n: usize) -> usize {
            n * 2
        }
        let boundary = boundary_graph_strategy(&SINGLE_KINDS, sparse_tri, &[0, 1], 4, 65);
        // a hub with dozens of neighbours (star shape) plus random edges and, on the kinds that allow
        // them, self-loops: neighbour sets larger than any small threshold
        let hub = (proptest::sample::select(&SINGLE_KINDS[..]), 34u8..=80, any::<u32>(), proptest::collection::vec((any::<u8>(), any::<u8>(), any::<u8>()), 0..40), proptest::sample::select(&[0u8, 1][..]))
            .prop_map(|(kind, n, perm, mut edges, wmode)| {
                // make self-loops on the hub and a few others likely (ignored on kinds without loops)
                edges.push((0, 0, 3));
                edges.push((1, 1, 3));
                GraphCase { kind, n, perm, shape: 3, edges, wmode, big_n: 0, big_seed: 0 }
            })
            .boxed();
        (prop_oneof![1200 => single, 100 => multi, 100 => larger, 1 => boundary, 3 => hub], prop_oneof![2 => Just(0u32), 3 => any::<u32>()], any::<bool>())
            .prop_map(|(g, subset, count_zeros)| ClusterCase { g, subset, count_zeros })
            .boxed()
    }
    fn random_cases(&self, tier: Tier) -> u32 {
        tier.pick(250_000, 2_500_000)
    }
    fn check(&self, case: &ClusterCase) -> Outcome {
        if case.g.big_n > 60_000 {
            // the fixed huge-graph cases (more than 2^16 nodes), sampled queries and linear oracles
            let mut out = Outcome::new();
            let ng = case.g.norm();
            let g = ng.build();
            crate::huge::cluster(&g, &ng, &mut out);
            out.class("huge_graph_66003_nodes");
            out.nontrivial = true;
            return out;
        }
        let mut out = Outcome::new();
        let ng = case.g.norm();
        let mut graph = ng.build();
        // `specs.self_loops` is an admission policy (the library reads it only in add_edge) and a
        // public field: cleared on a live graph it refuses further self-loops, while the stored
        // ones remain edges that "never count". One eligible case in four is checked in that state.
        if ng.has_loop() && (case.g.perm / 8) % 4 == 0 {
            graph.specs.self_loops = false;
            out.class("self_loops_flag_cleared_on_live_graph");
        }
        let n = ng.n;
        let subset: Option<Vec<usize>> = {
            let s: Vec<usize> = (0..n).filter(|i| case.subset >> (i % 32) & 1 == 1).collect();
            if s.is_empty() { None } else { Some(s) }
        };
        let sub_names: Option<Vec<String>> = subset.as_ref().map(|s| s.iter().map(|i| ng.names[*i].clone()).collect());
        let sub_slice: Option<&[String]> = sub_names.as_deref();
        let a = adjacency(&ng);
        let proper_with_outside = subset.as_ref().map_or(false, |s| s.len() < n && s.iter().any(|i| (0..n).any(|j| !s.contains(&j) && (a[*i][j] > 0.0 || a[j][*i] > 0.0))));

        macro_rules! refuse {
            ($name:expr, $res:expr, $why:expr) => {{
                out.api_calls += 1;
                match $res {
                    Err(p) => out.fail(format!("{}/panic/{}", $name, panic_class(&p)), p),
                    Ok(Err(e)) => {
                        out.check(kind_of(&e) == "WrongMethod", &format!("{}/refusal/error_kind", $name), || kind_of(&e));
                    }
                    Ok(Ok(_)) => out.fail(format!("{}/refusal/{}_accepted", $name, $why), format!("{} returned Ok on a {} graph", $name, $why)),
                }
            }};
        }

        if ng.multi {
            refuse!("clustering", guard(|| cluster::clustering(&graph, false, sub_slice)), "multi_edge");
            refuse!("average_clustering", guard(|| cluster::average_clustering(&graph, false, sub_slice, case.count_zeros)), "multi_edge");
            refuse!("triangles", guard(|| cluster::triangles(&graph, sub_slice)), "multi_edge");
            refuse!("transitivity", guard(|| cluster::transitivity(&graph)), "multi_edge");
            refuse!("generalized_degree", guard(|| cluster::generalized_degree(&graph, sub_slice)), "multi_edge");
            out.class("multi_edge_refusal");
            out.class(format!("kind_{}", ng.spec().label()));
            out.nontrivial = !ng.edges.is_empty();
            return out;
        }
        if ng.directed {
            refuse!("triangles", guard(|| cluster::triangles(&graph, sub_slice)), "directed");
            refuse!("transitivity", guard(|| cluster::transitivity(&graph)), "directed");
            refuse!("generalized_degree", guard(|| cluster::generalized_degree(&graph, sub_slice)), "directed");
        }
        // ---- clustering / average_clustering (both directions)
        let loop_dominates = {
            let ml = ng.edges.iter().filter(|e| e.0 == e.1).map(|e| e.2).fold(f64::NEG_INFINITY, f64::max);
            let mo = ng.edges.iter().filter(|e| e.0 != e.1).map(|e| e.2).fold(f64::NEG_INFINITY, f64::max);
            ml > mo
        };
        let modes: Vec<bool> = if ng.weighted && !loop_dominates { vec![false, true] } else { vec![false] };
        let mut has_triangle = false;
        for weighted in modes {
            let want = clustering_oracle(&ng, weighted);
            if want.iter().any(|x| *x > 0.0) {
                has_triangle = true;
            }
            let ctx = format!("clustering[{},{}]", if ng.directed { "directed" } else { "undirected" }, if weighted { "weighted" } else { "unweighted" });
            out.api_calls += 1;
            match guard(|| cluster::clustering(&graph, weighted, sub_slice)) {
                Err(p) => out.fail(format!("{}/panic/{}{}", ctx, panic_class(&p), if subset.is_some() { "/subset" } else { "" }), p),
                Ok(Err(e)) => out.fail(format!("{}/error/{}", ctx, kind_of(&e)), e.message.clone()),
                Ok(Ok(got)) => cmp_subset_map(&ng, &got, &want, &subset, 1e-9, &ctx, &mut out),
            }
            let counted: Vec<f64> = match &subset {
                None => want.clone(),
                Some(s) => s.iter().map(|i| want[*i]).collect(),
            };
            let counted: Vec<f64> = counted.into_iter().filter(|x| case.count_zeros || *x > 0.0).collect();
            if !counted.is_empty() {
                let mean = counted.iter().sum::<f64>() / counted.len() as f64;
                let ctx = format!("average_{}", ctx);
                out.api_calls += 1;
                match guard(|| cluster::average_clustering(&graph, weighted, sub_slice, case.count_zeros)) {
                    Err(p) => out.fail(format!("{}/panic/{}{}", ctx, panic_class(&p), if subset.is_some() { "/subset" } else { "" }), p),
                    Ok(Err(e)) => out.fail(format!("{}/error/{}", ctx, kind_of(&e)), e.message.clone()),
                    Ok(Ok(x)) => {
                        out.check(approx(x, mean, 1e-9, 1e-12), &format!("{}/eq_mean_of_counted/value", ctx), || format!("got {} want {} (count_zeros = {})", x, mean, case.count_zeros));
                    }
                }
            }
        }
        // ---- undirected-only functions
        let mut has_square = false;
        if !ng.directed {
            let (t, d) = triangles_and_degrees(&ng);
            out.api_calls += 1;
            match guard(|| cluster::triangles(&graph, sub_slice)) {
                Err(p) => out.fail(format!("triangles/panic/{}{}", panic_class(&p), if subset.is_some() { "/subset" } else { "" }), p),
                Ok(Err(e)) => out.fail(format!("triangles/error/{}", kind_of(&e)), e.message.clone()),
                Ok(Ok(got)) => {
                    let keys: BTreeSet<usize> = subset.clone().map_or((0..n).collect(), |s| s.into_iter().collect());
                    let gk: BTreeSet<usize> = got.keys().filter_map(|k| ng.index_of(k)).collect();
                    if gk != keys || got.len() != keys.len() {
                        out.fail("triangles/keys/ne_requested_nodes", format!("{:?} vs {:?}", gk, keys));
                    } else {
                        for i in keys {
                            if got[&ng.names[i]] != t[i] {
                                out.fail(if ng.has_loop() { "triangles/eq_definition/with_self_loops" } else { "triangles/eq_definition/count" }, format!("node {}: {} want {}", i, got[&ng.names[i]], t[i]));
                                break;
                            }
                        }
                    }
                }
            }
            let tri_total: usize = t.iter().sum();
            let triples: usize = d.iter().map(|x| x * x.saturating_sub(1) / 2).sum();
            let want_tr = if tri_total == 0 { 0.0 } else { tri_total as f64 / triples as f64 };
            out.api_calls += 1;
            match guard(|| cluster::transitivity(&graph)) {
                Err(p) => out.fail(format!("transitivity/panic/{}{}", panic_class(&p), if d.iter().any(|x| *x == 0) { "/isolated_node" } else { "" }), p),
                Ok(Err(e)) => out.fail(format!("transitivity/error/{}", kind_of(&e)), e.message.clone()),
                Ok(Ok(x)) => {
                    out.check((0.0..=1.0 + 1e-12).contains(&x), "transitivity/range/outside_0_1", || format!("{}", x));
                    if !approx(x, want_tr, 1e-9, 1e-12) {
                        out.fail(if d.iter().any(|x| *x == 0) { "transitivity/eq_definition/isolated_node" } else { "transitivity/eq_definition/value" }, format!("got {} want {} (3 x {} triangles / {} triples)", x, want_tr, tri_total / 3, triples));
                    }
                }
            }
            let gd = generalized_degree_oracle(&ng);
            out.api_calls += 1;
            match guard(|| cluster::generalized_degree(&graph, sub_slice)) {
                Err(p) => out.fail(format!("generalized_degree/panic/{}{}", panic_class(&p), if subset.is_some() { "/subset" } else { "" }), p),
                Ok(Err(e)) => out.fail(format!("generalized_degree/error/{}", kind_of(&e)), e.message.clone()),
                Ok(Ok(got)) => {
                    let keys: BTreeSet<usize> = subset.clone().map_or((0..n).collect(), |s| s.into_iter().collect());
                    let gk: BTreeSet<usize> = got.keys().filter_map(|k| ng.index_of(k)).collect();
                    if gk != keys || got.len() != keys.len() {
                        out.fail("generalized_degree/keys/ne_requested_nodes", format!("{:?} vs {:?}", gk, keys));
                    } else {
                        for i in keys {
                            let h: BTreeMap<usize, usize> = got[&ng.names[i]].iter().map(|(k, v)| (*k, *v)).collect();
                            let nz = |m: &BTreeMap<usize, usize>| m.iter().filter(|(k, v)| **k != 0 && **v != 0).map(|(k, v)| (*k, *v)).collect::<BTreeMap<_, _>>();
                            let zero_ok = h.get(&0).map_or(true, |z| *z == gd[i].get(&0).copied().unwrap_or(0));
                            if nz(&h) != nz(&gd[i]) || !zero_ok {
                                out.fail(if ng.has_loop() { "generalized_degree/eq_definition/with_self_loops" } else { "generalized_degree/eq_definition/histogram" }, format!("node {}: {:?} want {:?}", i, h, gd[i]));
                                break;
                            }
                        }
                    }
                }
            }
            let sq = square_clustering_oracle(&ng);
            if sq.iter().any(|x| *x > 0.0) {
                has_square = true;
            }
            out.api_calls += 1;
            match guard(|| cluster::square_clustering(&graph, sub_slice)) {
                Err(p) => out.fail(format!("square_clustering/panic/{}{}", panic_class(&p), if ng.has_loop() { "/with_self_loops" } else { "" }), p),
                Ok(got) => {
                    let keys: BTreeSet<usize> = subset.clone().map_or((0..n).collect(), |s| s.into_iter().collect());
                    let gk: BTreeSet<usize> = got.keys().filter_map(|k| ng.index_of(k)).collect();
                    if gk != keys || got.len() != keys.len() {
                        out.fail("square_clustering/keys/ne_requested_nodes", format!("{:?} vs {:?}", gk, keys));
                    } else {
                        for i in keys {
                            let x = got[&ng.names[i]];
                            if !approx(x, sq[i], 1e-9, 1e-12) || !(0.0..=1.0 + 1e-12).contains(&x) {
                                out.fail(if ng.has_loop() { "square_clustering/eq_definition/with_self_loops" } else { "square_clustering/eq_definition/value" }, format!("node {}: {} want {}", i, x, sq[i]));
                                break;
                            }
                        }
                    }
                }
            }
        }
        out.class(format!("kind_{}", ng.spec().label()));
        out.class(format!("wmode_{}", case.g.wmode));
        if subset.is_some() {
            out.class("subset_call");
        }
        if proper_with_outside {
            out.class("proper_subset_with_outside_neighbour");
        }
        if has_triangle {
            out.class("has_triangle");
        }
        if has_square {
            out.class("has_square");
        }
        if ng.has_loop() {
            out.class("has_self_loop");
        }
        if (0..n).any(|i| (0..n).filter(|j| a[i][*j] > 0.0 || a[*j][i] > 0.0).count() > 32) {
            out.class("node_with_more_than_32_neighbours");
        }
        crate::altkey::maybe_check(&ng, crate::altkey::Group::Cluster, case.g.perm as u64, &mut out);
        out.nontrivial = (has_triangle || has_square) && (proper_with_outside || ng.has_loop());
        out
    }
}
