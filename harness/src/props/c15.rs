//! C15 — derived graphs (subgraph, reverse, reweight, collapse) are exactly as specified.

use crate::coherent::*;
use crate::core::*;
use crate::engine::*;
use crate::gen;
use crate::model::*;
use crate::props::c01::fingerprint;
use crate::props::c09::{any_graph_strategy, realise, AnyGraph};
use proptest::collection::vec;
use proptest::prelude::*;
use proptest::strategy::BoxedStrategy;
use serde::{Deserialize, Serialize};

#[derive(Clone, Debug, Serialize, Deserialize)]
pub struct DerivCase {
    pub src: AnyGraph,
    /// members of S: index (x % (n+1)) into the graph's names, n = the absent name; repeats allowed
    pub subset: Vec<u8>,
    /// 0 = NaN, 1 = 0.0, 2 = -0.0, 3 = inf, 4 = 2.5, 5 = 1e-310 (subnormal), otherwise (w-5)/4
    pub w: u8,
}

pub struct C15;

fn decode_w(w: u8) -> f64 {
    match w {
        0 => f64::NAN,
        1 => 0.0,
        2 => -0.0,
        3 => f64::INFINITY,
        4 => 2.5,
        5 => 1e-310,
        x => (x as f64 - 5.0) / 4.0,
    }
}

/// Compares a derived graph with its expected model: specs, C01 observables, C02 coherence, C03 index.
fn check_derived(name: &str, g: &G, want: &Model, out: &mut Outcome) {
    let got_spec = specs_to_bits(&g.specs);
    if got_spec != want.spec {
        out.fail(format!("{}/specs/changed", name), format!("{:?} want {:?}", got_spec, want.spec));
        return;
    }
    let mut o2 = Outcome::new();
    let mut q = query_names(want, false);
    if q.len() > 40 {
        // the pairwise part of the coherence check is quadratic in the query names
        let k = q.len();
        q = [0, 1, 2, k / 4, k / 2, k - 4, k - 3, k - 2, k - 1].iter().map(|i| q[*i].clone()).collect();
    }
    coherent(g, want, &q, false, &mut o2);
    traversal_check(g, want, &mut o2);
    out.api_calls += o2.api_calls;
    for f in o2.failures {
        out.fail(format!("{}/result/{}", name, f.sig), f.msg);
    }
}

impl Prop for C15 {
    type Case = DerivCase;
    fn id(&self) -> &'static str {
        "C15"
    }
    fn rule(&self) -> String {
        "source graphs from C01 histories (all 96 specs, node attributes, duplicate policies) and constructed graphs of all 8 kinds; S = generated sub-multiset of the graph's names plus an absent name; w in {NaN, +0, -0, inf, subnormal, dyadic}. Expected results are computed from the source's node list and edge list: induced subgraph (order, attributes, all parallel edges), reverse (every edge flipped, per-pair order kept, twice = identity, WrongMethod when undirected), set_all_edge_weights (every weight bit-equal to w), to_single_edges (one edge per pair with the group's sum, multi_edges = false, WrongMethod on single-edge graphs); each result must have the expected specs, pass the full C02 coherence check and the C03 traversal-index check, and the source's fingerprint must be unchanged. Exhaustive block: all histories of length <= 3 with S = {a}. Non-trivial = S cuts >= 1 edge and keeps >= 1, or a parallel group of size >= 2 is collapsed, or an asymmetric edge is reversed; distinct = distinct serialised case. One source graph in ~600 is a tiny multigraph with a pair carrying a round number (2..8192: powers of two, powers of ten, their multiples and neighbours) of parallel edges; edge attributes (a unique tag on two edges in three) must survive subgraph, set_all_edge_weights and a double reverse.".into()
    }
    fn assumptions(&self) -> Vec<String> {
        vec!["two edges in three carry a unique i32 attribute; subgraph, set_all_edge_weights and double reverse must keep it, to_single_edges (documented to lose attributes) and single reverse are not checked for it".into(), "group sums are compared bit-exactly; weights are dyadic so the order of summation does not matter, NaN if any member is unweighted".into()]
    }
    fn enumerate(&self, _tier: Tier) -> Vec<DerivCase> {
        let mut v: Vec<DerivCase> = gen::enumerate_histories(1).into_iter().map(|h| DerivCase { src: AnyGraph::Hist(h), subset: vec![1, 0], w: 4 }).collect();
        v.extend(crate::huge::huge_cases().into_iter().map(|g| DerivCase { src: AnyGraph::Graph(g), subset: vec![], w: 4 }));
        v
    }
    fn strategy(&self, tier: Tier) -> BoxedStrategy<DerivCase> {
        (any_graph_strategy(tier.pick(20, 40)), prop_oneof![6 => vec(any::<u8>(), 0..7), 1 => vec(any::<u8>(), 7..60)], prop_oneof![1 => 0u8..6, 1 => any::<u8>()]).prop_map(|(src, subset, w)| DerivCase { src, subset, w }).boxed()
    }
    fn random_cases(&self, tier: Tier) -> u32 {
        tier.pick(100_000, 1_000_000)
    }
    fn check(&self, case: &DerivCase) -> Outcome {
        if let AnyGraph::Graph(c) = &case.src {
            if c.big_n > 60_000 {
                // the fixed huge-graph cases (more than 2^16 nodes), linear oracles
                let mut out = Outcome::new();
                let ng = c.norm();
                let g = ng.build();
                crate::huge::derived(&g, &ng, &mut out);
                out.class("huge_graph_66003_nodes");
                out.nontrivial = true;
                return out;
            }
        }
        let mut out = Outcome::new();
        let Some((g, m)) = realise(&case.src, &mut out) else {
            return out;
        };
        let names = m.names();
        let n = names.len();
        let before = fingerprint(&g);
        let mut nontrivial = false;
        // ---- subgraph
        // On graphs of more than 64 nodes short requests draw from eight anchor positions (the first
        // three nodes, which the structured shapes connect, the middle, the last two, a quarter,
        // the absent name), so that a few names of a large graph repeat and touch each other
        let anchors: Vec<usize> = if n > 64 { vec![0, 1, 2, n / 2, n - 1, n - 2, n / 4, n] } else { vec![] };
        let s: Vec<String> = case
            .subset
            .iter()
            .map(|x| {
                let i = if !anchors.is_empty() && case.subset.len() <= 8 { anchors[*x as usize % anchors.len()] } else { *x as usize % (n + 1) };
                if i == n { ABSENT.to_string() } else { names[i].clone() }
            })
            .collect();
        if !anchors.is_empty() && case.subset.len() <= 8 && case.subset.len() >= 3 {
            out.class("short_request_on_a_graph_of_more_than_64_nodes");
        }
        out.api_calls += 1;
        match guard(|| g.get_subgraph(&s)) {
            Err(p) => out.fail(format!("get_subgraph/panic/{}", panic_class(&p)), p),
            Ok(sub) => {
                let mut want = Model::new(m.spec);
                want.nodes = m.nodes.iter().filter(|(x, _)| s.contains(x)).cloned().collect();
                want.edges = m.edges.iter().filter(|e| s.contains(&e.u) && s.contains(&e.v)).cloned().collect();
                check_derived("get_subgraph", &sub, &want, &mut out);
                if !want.edges.is_empty() && want.edges.len() < m.edges.len() {
                    nontrivial = true;
                    out.class("subgraph_cuts_and_keeps_edges");
                }
            }
        }
        // ---- reverse
        out.api_calls += 1;
        match guard(|| g.reverse()) {
            Err(p) => out.fail(format!("reverse/panic/{}", panic_class(&p)), p),
            Ok(Err(e)) => {
                out.check(!m.spec.directed && kind_of(&e) == "WrongMethod", "reverse/error/kind", || format!("{} on a {} graph", kind_of(&e), if m.spec.directed { "directed" } else { "undirected" }));
            }
            Ok(Ok(rev)) => {
                if !m.spec.directed {
                    out.fail("reverse/kind_guard/undirected_accepted", "Ok on an undirected graph");
                } else {
                    let mut want = m.clone();
                    want.edges = m.edges.iter().map(|e| MEdge { u: e.v.clone(), v: e.u.clone(), w: e.w, a: e.a }).collect();
                    // the statement speaks of nodes, weights and parallel edges only; that the
                    // attributes survive is checked through "applying it twice restores the graph"
                    want.ignore_edge_attrs = true;
                    check_derived("reverse", &rev, &want, &mut out);
                    if m.edges.iter().any(|e| e.u != e.v && m.between(&e.v, &e.u).is_empty()) {
                        nontrivial = true;
                        out.class("reverse_asymmetric_edge");
                    }
                    out.api_calls += 1;
                    match guard(|| rev.reverse()) {
                        Ok(Ok(back)) => check_derived("reverse_twice", &back, &m, &mut out),
                        Ok(Err(e)) => out.fail("reverse_twice/error/kind", kind_of(&e)),
                        Err(p) => out.fail(format!("reverse_twice/panic/{}", panic_class(&p)), p),
                    }
                }
            }
        }
        // ---- set_all_edge_weights
        let w = decode_w(case.w);
        out.api_calls += 1;
        match guard(|| g.set_all_edge_weights(w)) {
            Err(p) => out.fail(format!("set_all_edge_weights/panic/{}", panic_class(&p)), p),
            Ok(rw) => {
                let mut want = m.clone();
                want.edges.iter_mut().for_each(|e| e.w = w);
                check_derived("set_all_edge_weights", &rw, &want, &mut out);
            }
        }
        // ---- to_single_edges
        out.api_calls += 1;
        match guard(|| g.to_single_edges()) {
            Err(p) => out.fail(format!("to_single_edges/panic/{}", panic_class(&p)), p),
            Ok(Err(e)) => {
                out.check(!m.spec.multi && kind_of(&e) == "WrongMethod", "to_single_edges/error/kind", || format!("{} on a {} graph", kind_of(&e), if m.spec.multi { "multi-edge" } else { "single-edge" }));
            }
            Ok(Ok(single)) => {
                if !m.spec.multi {
                    out.fail("to_single_edges/kind_guard/single_edge_graph_accepted", "Ok on a single-edge graph");
                } else {
                    let mut want = Model::new(SpecBits { multi: false, ..m.spec });
                    // documented: "Edge attributes are lost"; the statement only fixes the weight
                    want.ignore_edge_attrs = true;
                    want.nodes = m.nodes.clone();
                    let mut done: Vec<(String, String)> = vec![];
                    for e in &m.edges {
                        if done.iter().any(|(a, b)| m.same_pair(e, a, b)) {
                            continue;
                        }
                        done.push((e.u.clone(), e.v.clone()));
                        let group = m.between(&e.u, &e.v);
                        if group.len() >= 2 {
                            nontrivial = true;
                            out.class("collapse_parallel_group");
                        }
                        let sum: f64 = group.iter().map(|x| x.w).sum();
                        want.edges.push(MEdge { u: e.u.clone(), v: e.v.clone(), w: sum, a: None });
                    }
                    check_derived("to_single_edges", &single, &want, &mut out);
                }
            }
        }
        // ---- source untouched
        out.check(fingerprint(&g) == before, "source/unchanged/fingerprint", || "a derived-graph call changed the source graph".to_string());
        out.class(format!("kind_{}", m.spec.label()));
        if s.iter().any(|x| x == ABSENT) {
            out.class("subset_with_absent_name");
        }
        if s.iter().filter(|x| m.has(x)).collect::<std::collections::BTreeSet<_>>().len() > 16 {
            out.class("subset_selects_more_than_16_nodes");
        }
        out.nontrivial = nontrivial;
        out
    }
}
