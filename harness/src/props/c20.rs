//! C20 — valid calls on degenerate graphs return values or errors, never panic (both build profiles).

use crate::core::*;
use crate::engine::*;
use crate::graphcase::*;
use crate::model::{wbits, ABSENT, G};
use graphrs::algorithms::{centrality, cluster, community, components, shortest_path::dijkstra};
use graphrs::{generators, readwrite::graphml, Edge, Node};
use proptest::prelude::*;
use proptest::strategy::BoxedStrategy;
use serde::{Deserialize, Serialize};
use serde_json::{json, Value};
use std::cell::RefCell;
use std::collections::{BTreeMap, BTreeSet, HashMap, HashSet};
use std::io::{BufRead, BufReader, Write};
use std::process::{Child, ChildStdin, ChildStdout, Command, Stdio};
use std::sync::Arc;

#[derive(Clone, Debug, Serialize, Deserialize)]
pub struct ApiCase {
    pub g: GraphCase,
    /// selects argument values (names, subsets, k)
    pub sel: u64,
    /// use a name that is not in the graph for the functions that have an error channel
    pub absent: bool,
}

pub struct C20;

/// outcome of one call
#[derive(Clone, Debug, Serialize, Deserialize, PartialEq)]
pub enum R {
    Val(Value, Vec<u64>),
    Err(String),
    None,
    Panic(String),
    Skipped,
}

/// what the statement requires of a call, beyond "does not panic"
#[derive(Clone, Copy, PartialEq, Debug)]
enum Expect {
    /// anything but a panic
    Total,
    /// must use the error channel (absent name or unsupported kind of graph)
    MustErr,
}

struct Call {
    name: &'static str,
    expect: Expect,
    why: &'static str,
    r: R,
}

fn fbits(v: &[f64]) -> Vec<u64> {
    v.iter().map(|x| x.to_bits()).collect()
}

fn edges_val(es: &[&Arc<Edge<String, i32>>], directed: bool) -> Value {
    let mut v: Vec<(String, String, u64)> = es.iter().map(|e| crate::model::canon_edge(directed, &e.u, &e.v, e.weight)).collect();
    v.sort();
    json!(v)
}

fn nodes_val(ns: &[&Arc<Node<String, i32>>]) -> Value {
    let mut v: Vec<String> = ns.iter().map(|n| n.name.clone()).collect();
    v.sort();
    json!(v)
}

fn fmap_val(m: &HashMap<String, f64>) -> (Value, Vec<u64>) {
    let mut ks: Vec<&String> = m.keys().collect();
    ks.sort();
    (json!(ks), ks.iter().map(|k| m[*k].to_bits()).collect())
}

fn umap_val(m: &HashMap<String, usize>) -> Value {
    json!(m.iter().map(|(k, v)| (k.clone(), *v)).collect::<BTreeMap<_, _>>())
}

fn sets_val(v: &[HashSet<String>]) -> Value {
    json!(v.iter().map(|c| c.iter().cloned().collect::<BTreeSet<_>>()).collect::<BTreeSet<_>>())
}

fn sp_val(m: &HashMap<String, graphrs::algorithms::shortest_path::ShortestPathInfo<String>>) -> (Value, Vec<u64>) {
    let mut ks: Vec<&String> = m.keys().collect();
    ks.sort();
    let mut fl = vec![];
    let rows: Vec<(String, Vec<Vec<String>>)> = ks
        .iter()
        .map(|k| {
            fl.push(m[*k].distance.to_bits());
            let mut p = m[*k].paths.clone();
            p.sort();
            ((*k).clone(), p)
        })
        .collect();
    (json!(rows), fl)
}

fn res<T>(r: Result<T, graphrs::Error>, f: impl FnOnce(T) -> (Value, Vec<u64>)) -> R {
    match r {
        Ok(v) => {
            let (a, b) = f(v);
            R::Val(a, b)
        }
        Err(e) => R::Err(kind_of(&e)),
    }
}

fn opt<T>(r: Option<T>, f: impl FnOnce(T) -> (Value, Vec<u64>)) -> R {
    match r {
        Some(v) => {
            let (a, b) = f(v);
            R::Val(a, b)
        }
        None => R::None,
    }
}

/// Runs the whole function table on one case.
pub fn run_table(case: &ApiCase) -> Vec<(String, String, String, R)> {
    let ng = case.g.norm();
    let graph: G = ng.build();
    let n = ng.n;
    let d = ng.directed;
    let multi = ng.multi;
    let weighted = ng.weighted;
    let mut sel = case.sel;
    let mut pick = |m: usize| -> usize {
        sel = mix(sel, 0x9e37);
        (sel % (m.max(1) as u64)) as usize
    };
    let existing = |i: usize| -> String { ng.names[i % n.max(1)].clone() };
    let have_nodes = n > 0;
    // names for functions with an error channel
    // the absent name is short, or (half of the cases) some hundred characters of mixed width
    let absent_name: String = match case.sel % 4 {
        0 | 1 => ABSENT.to_string(),
        k => crate::model::absent_long(k as usize),
    };
    let (a, b): (String, String) = if case.absent || !have_nodes { (absent_name.clone(), if have_nodes { existing(pick(n)) } else { ABSENT.to_string() }) } else { (existing(pick(n)), existing(pick(n))) };
    let name_ok = !case.absent && have_nodes;
    // names that exist, for functions without an error channel
    let (x, y) = if have_nodes { (existing(pick(n)), existing(pick(n))) } else { (String::new(), String::new()) };
    let subset_existing: Vec<String> = (0..n).filter(|_| pick(2) == 1).map(|i| ng.names[i].clone()).collect();
    let mut subset_chan = subset_existing.clone();
    if case.absent {
        subset_chan.push(absent_name.clone());
    }
    let subset_ok = !case.absent;
    let k = 1 + pick(n + 2);
    let e_name = if name_ok { Expect::Total } else { Expect::MustErr };
    let e_subset = if subset_ok { Expect::Total } else { Expect::MustErr };
    let must = |cond: bool| if cond { Expect::MustErr } else { Expect::Total };
    let either = |p: Expect, q: Expect| if p == Expect::MustErr || q == Expect::MustErr { Expect::MustErr } else { Expect::Total };

    // the functions that return *every* shortest path need time and memory proportional to the
    // total length of those paths: on medium-sized graphs they are only called for the shapes with
    // few shortest paths per pair (random sparse, path, cycle, star, triangles, chained cycles),
    // and the quadratic all-pairs tables only up to 60 nodes
    let path_safe = n <= 34 || matches!(case.g.shape, 0 | 1 | 2 | 3 | 7 | 8);
    let pairs_safe = n <= 60 && path_safe;

    let trace = std::env::var("VERIF_C20_TRACE").is_ok();
    let mut calls: Vec<Call> = vec![];
    macro_rules! call {
        ($name:expr, $expect:expr, $why:expr, $body:expr) => {{
            graphrs::verif::set_step_budget(Some(crate::props::c13::STEP_BUDGET));
            let t0 = std::time::Instant::now();
            let r = match guard(|| $body) {
                Ok(r) => r,
                Err(p) => R::Panic(p),
            };
            graphrs::verif::set_step_budget(None);
            if trace {
                eprintln!("  {} {:.3}s", $name, t0.elapsed().as_secs_f64());
            }
            calls.push(Call { name: $name, expect: $expect, why: $why, r });
        }};
    }
    let g = &graph;
    // ---------------- queries
    if have_nodes {
        call!("breadth_first_search", Expect::Total, "", R::Val(json!(g.breadth_first_search(&x).into_iter().collect::<BTreeSet<_>>()), vec![]));
        call!("get_successors_or_neighbors", Expect::Total, "", R::Val(nodes_val(&g.get_successors_or_neighbors(x.clone())), vec![]));
    }
    call!("edges_have_weight", Expect::Total, "", R::Val(json!(g.edges_have_weight()), vec![]));
    call!("get_all_edges", Expect::Total, "", R::Val(edges_val(&g.get_all_edges(), d), vec![]));
    call!("get_all_nodes", Expect::Total, "", R::Val(json!(g.get_all_nodes().iter().map(|n| n.name.clone()).collect::<Vec<_>>()), vec![]));
    call!("get_all_node_names", Expect::Total, "", R::Val(json!(g.get_all_node_names()), vec![]));
    call!("get_edge", either(e_name, must(multi)), "absent name or multi-edge graph", res(g.get_edge(a.clone(), b.clone()), |e| (json!((e.u.clone(), e.v.clone(), wbits(e.weight))), vec![])));
    call!("get_edges", either(e_name, must(!multi)), "absent name or single-edge graph", res(g.get_edges(a.clone(), b.clone()), |l| (edges_val(&l, d), vec![])));
    call!("get_edges_for_node", e_name, "absent name", res(g.get_edges_for_node(a.clone()), |l| (edges_val(&l, d), vec![])));
    call!("get_edges_for_nodes", e_subset, "absent name", res(g.get_edges_for_nodes(&subset_chan), |l| (edges_val(&l, d), vec![])));
    call!("get_in_edges_for_node", either(e_name, must(!d)), "absent name or undirected graph", res(g.get_in_edges_for_node(a.clone()), |l| (edges_val(&l, d), vec![])));
    call!("get_in_edges_for_nodes", either(e_subset, must(!d)), "absent name or undirected graph", res(g.get_in_edges_for_nodes(&subset_chan), |l| (edges_val(&l, d), vec![])));
    call!("get_out_edges_for_node", either(e_name, must(!d)), "absent name or undirected graph", res(g.get_out_edges_for_node(a.clone()), |l| (edges_val(&l, d), vec![])));
    call!("get_out_edges_for_nodes", either(e_subset, must(!d)), "absent name or undirected graph", res(g.get_out_edges_for_nodes(&subset_chan), |l| (edges_val(&l, d), vec![])));
    call!("get_neighbor_nodes", e_name, "absent name", res(g.get_neighbor_nodes(a.clone()), |l| (nodes_val(&l), vec![])));
    call!("get_node", e_name, "absent name", opt(g.get_node(a.clone()), |nd| (json!(nd.name), vec![])));
    call!("get_predecessor_nodes", either(e_name, must(!d)), "absent name or undirected graph", res(g.get_predecessor_nodes(a.clone()), |l| (nodes_val(&l), vec![])));
    call!("get_predecessor_node_names", either(e_name, must(!d)), "absent name or undirected graph", res(g.get_predecessor_node_names(a.clone()), |l| (json!(l.into_iter().cloned().collect::<BTreeSet<_>>()), vec![])));
    call!("get_successor_nodes", either(e_name, must(!d)), "absent name or undirected graph", res(g.get_successor_nodes(a.clone()), |l| (nodes_val(&l), vec![])));
    call!("get_successor_node_names", either(e_name, must(!d)), "absent name or undirected graph", res(g.get_successor_node_names(a.clone()), |l| (json!(l.into_iter().cloned().collect::<BTreeSet<_>>()), vec![])));
    call!("get_predecessors_map", Expect::Total, "", R::Val(json!(g.get_predecessors_map().len()), vec![]));
    call!("get_successors_map", Expect::Total, "", R::Val(json!(g.get_successors_map().len()), vec![]));
    call!("has_node", Expect::Total, "", R::Val(json!(g.has_node(&a)), vec![]));
    call!("has_nodes", Expect::Total, "", R::Val(json!(g.has_nodes(&subset_chan)), vec![]));
    call!("number_of_nodes", Expect::Total, "", R::Val(json!(g.number_of_nodes()), vec![]));
    call!("number_of_edges", Expect::Total, "", R::Val(json!(g.number_of_edges()), vec![]));
    call!("size", Expect::Total, "", R::Val(json!(null), fbits(&[g.size(false), if weighted { g.size(true) } else { 0.0 }])));
    call!("get_node_by_index", Expect::Total, "", opt(g.get_node_by_index(&pick(n + 2)), |nd| (json!(nd.name), vec![])));
    // ---------------- degrees, density, matrix
    call!("get_degree_for_all_nodes", Expect::Total, "", R::Val(umap_val(&g.get_degree_for_all_nodes()), vec![]));
    call!("get_in_degree_for_all_nodes", must(!d), "undirected graph", res(g.get_in_degree_for_all_nodes(), |m| (umap_val(&m), vec![])));
    call!("get_out_degree_for_all_nodes", must(!d), "undirected graph", res(g.get_out_degree_for_all_nodes(), |m| (umap_val(&m), vec![])));
    call!("get_node_degree", e_name, "absent name", opt(g.get_node_degree(a.clone()), |v| (json!(v), vec![])));
    call!("get_node_in_degree", either(e_name, must(!d)), "absent name or undirected graph", opt(g.get_node_in_degree(a.clone()), |v| (json!(v), vec![])));
    call!("get_node_out_degree", either(e_name, must(!d)), "absent name or undirected graph", opt(g.get_node_out_degree(a.clone()), |v| (json!(v), vec![])));
    if weighted {
        call!("get_node_weighted_degree", e_name, "absent name", opt(g.get_node_weighted_degree(a.clone()), |v| (json!(null), fbits(&[v]))));
        call!("get_node_weighted_in_degree", either(e_name, must(!d)), "absent name or undirected graph", opt(g.get_node_weighted_in_degree(a.clone()), |v| (json!(null), fbits(&[v]))));
        call!("get_node_weighted_out_degree", either(e_name, must(!d)), "absent name or undirected graph", opt(g.get_node_weighted_out_degree(a.clone()), |v| (json!(null), fbits(&[v]))));
        call!("get_weighted_degree_for_all_nodes", Expect::Total, "", { let (p, q) = fmap_val(&g.get_weighted_degree_for_all_nodes()); R::Val(p, q) });
        call!("get_weighted_in_degree_for_all_nodes", must(!d), "undirected graph", res(g.get_weighted_in_degree_for_all_nodes(), |m| fmap_val(&m)));
        call!("get_weighted_out_degree_for_all_nodes", must(!d), "undirected graph", res(g.get_weighted_out_degree_for_all_nodes(), |m| fmap_val(&m)));
    }
    call!("get_density", Expect::Total, "", { let x = g.get_density(); R::Val(json!(x.is_finite()), if x.is_finite() { fbits(&[x]) } else { vec![] }) });
    call!("get_sparse_adjacency_matrix", must(multi), "multi-edge graph", res(g.get_sparse_adjacency_matrix(), |m| (json!((m.shape(), m.nnz())), vec![])));
    // ---------------- convert / subgraph / ensure
    call!("reverse", must(!d), "undirected graph", res(g.reverse(), |r| (edges_val(&r.get_all_edges(), d), vec![])));
    call!("set_all_edge_weights", Expect::Total, "", R::Val(edges_val(&g.set_all_edge_weights(2.5).get_all_edges(), d), vec![]));
    call!("to_single_edges", must(!multi), "single-edge graph", res(g.to_single_edges(), |r| (json!(r.get_all_edges().len()), vec![])));
    call!("get_subgraph", Expect::Total, "", R::Val(edges_val(&g.get_subgraph(&subset_chan).get_all_edges(), d), vec![]));
    call!("ensure_directed", must(!d), "undirected graph", res(g.ensure_directed(), |_| (json!(null), vec![])));
    call!("ensure_undirected", must(d), "directed graph", res(g.ensure_undirected(), |_| (json!(null), vec![])));
    call!("ensure_not_multi_edges", must(multi), "multi-edge graph", res(g.ensure_not_multi_edges(), |_| (json!(null), vec![])));
    call!("ensure_weighted", must(!weighted && !ng.edges.is_empty()), "unweighted edges", res(g.ensure_weighted(), |_| (json!(null), vec![])));
    // ---------------- shortest paths
    for w in if weighted { vec![false, true] } else { vec![false] } {
        if path_safe {
        call!("single_source", e_name, "absent source", res(dijkstra::single_source(g, w, a.clone(), None, None, false, true), |m| sp_val(&m)));
        }
        if have_nodes && path_safe {
            call!("single_source[target]", e_name, "absent target", res(dijkstra::single_source(g, w, x.clone(), Some(a.clone()), Some(3.0), true, true), |m| sp_val(&m)));
            if pairs_safe {
            call!("all_pairs[target]", e_name, "absent target", res(dijkstra::all_pairs(g, w, Some(a.clone()), None, false, true), |m| (json!(m.len()), vec![])));
            }
            call!("multi_source[target]", e_name, "absent target", res(dijkstra::multi_source(g, w, vec![x.clone(), y.clone()], Some(a.clone()), None, false, false), |m| (json!(m.len()), vec![])));
            if pairs_safe {
            call!("get_all_shortest_paths_involving", Expect::Total, "", R::Val(json!(dijkstra::get_all_shortest_paths_involving(g, x.clone(), w).len()), vec![]));
            }
        }
        if path_safe {
        call!("multi_source", e_subset, "absent source", res(dijkstra::multi_source(g, w, subset_chan.clone(), None, None, false, true), |m| (json!(m.keys().cloned().collect::<BTreeSet<_>>()), vec![])));
        }
        if pairs_safe {
        call!("all_pairs", Expect::Total, "", res(dijkstra::all_pairs(g, w, None, None, false, false), |m| {
            let mut ks: Vec<&String> = m.keys().collect();
            ks.sort();
            let mut fl = vec![];
            for s in &ks {
                fl.extend(sp_val(&m[*s]).1);
            }
            (json!(ks), fl)
        }));
        }
        // zero weights (of either sign) are valid for the shortest-path functions only
        if w && case.g.wmode == 2 {
            continue;
        }
        // ---------------- centrality
        call!("betweenness_centrality", Expect::Total, "", res(centrality::betweenness::betweenness_centrality(g, w, pick(2) == 1), |m| fmap_val(&m)));
        call!("closeness_centrality", Expect::Total, "", res(centrality::closeness::closeness_centrality(g, w, pick(2) == 1), |m| fmap_val(&m)));
        call!("eigenvector_centrality", must(multi), "multi-edge graph", res(centrality::eigenvector::eigenvector_centrality(g, w, Some(200), Some(1e-6)), |m| fmap_val(&m)));
        // ---------------- cluster
        call!("clustering", must(multi), "multi-edge graph", res(cluster::clustering(g, w, None), |m| fmap_val(&m)));
        call!("clustering[names]", either(must(multi), if subset_chan.is_empty() { Expect::Total } else { e_subset }), "multi-edge graph or absent name", res(cluster::clustering(g, w, Some(&subset_chan)), |m| fmap_val(&m)));
        call!("average_clustering", must(multi), "multi-edge graph", res(cluster::average_clustering(g, w, None, true), |v| (json!(v.is_nan()), if v.is_nan() { vec![] } else { fbits(&[v]) })));
        // ---------------- community
        if !ng.edges.is_empty() || true {
            let singles: Vec<HashSet<String>> = ng.names.iter().map(|x| [x.clone()].into_iter().collect()).collect();
            call!("is_partition", Expect::Total, "", R::Val(json!(community::partitions::is_partition(g, &singles)), vec![]));
            call!("modularity", Expect::Total, "", res(community::partitions::modularity(g, &singles, w, None), |q| (json!(q.is_nan()), if q.is_nan() { vec![] } else { fbits(&[q]) })));
            let bad: Vec<HashSet<String>> = vec![[ABSENT.to_string()].into_iter().collect()];
            call!("modularity[foreign]", Expect::MustErr, "not a partition", res(community::partitions::modularity(g, &bad, w, None), |q| (json!(null), fbits(&[q]))));
            call!("louvain_partitions", Expect::Total, "", res(community::louvain::louvain_partitions(g, w, None, None, Some(case.sel)), |l| (json!(l.iter().map(|x| sets_val(x)).collect::<Vec<_>>()), vec![])));
            call!("louvain_communities", Expect::Total, "", res(community::louvain::louvain_communities(g, w, None, None, Some(case.sel)), |l| (sets_val(&l), vec![])));
        }
    }
    call!("degree_centrality", Expect::Total, "", { let (p, q) = fmap_val(&centrality::degree::degree_centrality(g)); R::Val(p, q) });
    call!("triangles", must(d || multi), "directed or multi-edge graph", res(cluster::triangles(g, None), |m| (umap_val(&m), vec![])));
    call!("triangles[names]", either(must(d || multi), if subset_chan.is_empty() { Expect::Total } else { e_subset }), "directed, multi-edge graph or absent name", res(cluster::triangles(g, Some(&subset_chan)), |m| (umap_val(&m), vec![])));
    call!("transitivity", must(d || multi), "directed or multi-edge graph", res(cluster::transitivity(g), |v| (json!(null), fbits(&[v]))));
    call!("generalized_degree", must(d || multi), "directed or multi-edge graph", res(cluster::generalized_degree(g, None), |m| (json!(m.iter().map(|(k, v)| (k.clone(), v.iter().map(|(a, b)| (*a, *b)).collect::<BTreeMap<_, _>>())).collect::<BTreeMap<_, _>>()), vec![])));
    call!("generalized_degree[names]", either(must(d || multi), if subset_chan.is_empty() { Expect::Total } else { e_subset }), "directed, multi-edge graph or absent name", res(cluster::generalized_degree(g, Some(&subset_chan)), |m| (json!(m.len()), vec![])));
    call!("square_clustering", Expect::Total, "", { let (p, q) = fmap_val(&cluster::square_clustering(g, None)); R::Val(p, q) });
    call!("square_clustering[names]", Expect::Total, "", { let (p, q) = fmap_val(&cluster::square_clustering(g, Some(&subset_existing))); R::Val(p, q) });
    // ---------------- components
    call!("connected_components", must(d), "directed graph", res(components::connected_components(g), |v| (sets_val(&v), vec![])));
    call!("number_of_connected_components", must(d), "directed graph", res(components::number_of_connected_components(g), |v| (json!(v), vec![])));
    call!("node_connected_component", either(e_name, must(d)), "absent name or directed graph", res(components::node_connected_component(g, &a), |v| (json!(v.into_iter().collect::<BTreeSet<_>>()), vec![])));
    call!("weakly_connected_components", must(!d), "undirected graph", res(components::weakly_connected_components(g), |v| (sets_val(&v), vec![])));
    call!("strongly_connected_components", must(!d), "undirected graph", res(components::strongly_connected_components(g), |v| (sets_val(&v), vec![])));
    call!("bfs_equal_size_partitions", Expect::Total, "", R::Val(json!(components::bfs_equal_size_partitions(g, k).len()), vec![]));
    // ---------------- generators, GraphML
    call!("complete_graph", Expect::Total, "", R::Val(json!(generators::classic::complete_graph(pick(6) as i32, d).number_of_edges()), vec![]));
    call!("fast_gnp_random_graph", Expect::Total, "", res(generators::random::fast_gnp_random_graph(pick(12) as i32, 0.3, d, Some(case.sel)), |r| (json!(r.number_of_edges()), vec![])));
    if case.sel % 64 == 0 {
        // a valid call far above the small sizes: node counts around 2^15, sqrt(2^31) and 2^16
        const LARGE_N: [i32; 12] = [300, 1000, 4096, 32767, 32768, 46340, 46341, 46342, 65535, 65536, 70000, 100000];
        let big = LARGE_N[pick(LARGE_N.len())];
        call!("fast_gnp_random_graph[large_n]", Expect::Total, "", res(generators::random::fast_gnp_random_graph(big, 1e-7, d, Some(case.sel)), |r| (json!(r.number_of_nodes()), vec![])));
    }
    call!("write_read_graphml", Expect::Total, "", match graphml::write_graphml_string(g) {
        Ok(s) => res(graphml::read_graphml_string(&s, g.specs.clone()), |r| (json!((r.number_of_nodes(), r.number_of_edges())), vec![])),
        Err(_) => R::Err("io".into()),
    });
    calls.into_iter().map(|c| (c.name.to_string(), format!("{:?}", c.expect), c.why.to_string(), c.r)).collect()
}

// ------------------------------------------------------------------------------------------------
// worker (release profile) protocol

pub fn worker_main() {
    install_panic_hook();
    let stdin = std::io::stdin();
    let mut out = std::io::stdout();
    for line in stdin.lock().lines() {
        let Ok(line) = line else { break };
        let resp = match serde_json::from_str::<ApiCase>(&line) {
            Err(e) => json!({ "error": format!("bad request: {}", e) }),
            Ok(case) => json!({ "table": run_table(&case).into_iter().map(|(n, _, _, r)| (n, r)).collect::<Vec<_>>() }),
        };
        if writeln!(out, "{}", resp).is_err() || out.flush().is_err() {
            break;
        }
    }
}

struct Worker {
    _child: Child,
    stdin: ChildStdin,
    stdout: BufReader<ChildStdout>,
}

thread_local! {
    static WORKER: RefCell<Option<Worker>> = const { RefCell::new(None) };
}

fn ask_release_worker(case: &ApiCase) -> Result<Vec<(String, R)>, String> {
    WORKER.with(|w| {
        let mut w = w.borrow_mut();
        if w.is_none() {
            let exe = std::env::current_exe().map_err(|e| e.to_string())?;
            let rel = exe.parent().and_then(|p| p.parent()).map(|p| p.join("rel").join("gverif")).ok_or("no target dir")?;
            if !rel.exists() {
                return Err(format!("release binary {} not built", rel.display()));
            }
            let mut child = Command::new(rel).args(["--worker", "C20"]).stdin(Stdio::piped()).stdout(Stdio::piped()).stderr(Stdio::null()).spawn().map_err(|e| e.to_string())?;
            let stdin = child.stdin.take().ok_or("no stdin")?;
            let stdout = BufReader::new(child.stdout.take().ok_or("no stdout")?);
            *w = Some(Worker { _child: child, stdin, stdout });
        }
        let wk = w.as_mut().unwrap();
        writeln!(wk.stdin, "{}", serde_json::to_string(case).map_err(|e| e.to_string())?).map_err(|e| e.to_string())?;
        wk.stdin.flush().map_err(|e| e.to_string())?;
        let mut resp = String::new();
        wk.stdout.read_line(&mut resp).map_err(|e| e.to_string())?;
        if resp.is_empty() {
            return Err("release worker died (abort, stack overflow or out of memory)".into());
        }
        let v: Value = serde_json::from_str(&resp).map_err(|e| format!("{} in {:?}", e, resp))?;
        serde_json::from_value(v["table"].clone()).map_err(|e| e.to_string())
    })
}

fn same(a: &R, b: &R) -> bool {
    match (a, b) {
        (R::Val(x, fx), R::Val(y, fy)) => x == y && fx.len() == fy.len() && fx.iter().zip(fy).all(|(p, q)| approx(f64::from_bits(*p), f64::from_bits(*q), 1e-9, 1e-12)),
        (R::Err(x), R::Err(y)) => x == y,
        (R::None, R::None) | (R::Skipped, R::Skipped) => true,
        (R::Panic(_), R::Panic(_)) => true,
        _ => false,
    }
}

impl Prop for C20 {
    type Case = ApiCase;
    fn id(&self) -> &'static str {
        "C20"
    }
    fn rule(&self) -> String {
        "a table of about 100 calls covering every public function of the crate (queries, degrees, density, matrix, convert, subgraph, ensure, Dijkstra x4, centralities x4, cluster x6, partitions, Louvain x2, components x6, generators, GraphML) is executed on every case: all 8 kinds x (exhaustive block: every graph on <= 3 nodes with at most one edge per pair, plus explicit parallel-edge and self-loop shapes) and random graphs with n in 0..=7 (sparse, so isolated / degree-one nodes and disconnected graphs dominate) plus, one case in 150, a medium-sized graph (21..=255 nodes, mostly one of ten structured shapes incl. layered graphs with more than 2^64 equally short paths, grids, cliques, circulants; the functions that return every shortest path are skipped where their output would be exponential), arguments drawn from the graph's own names by a selector (one case in 64 additionally calls fast_gnp_random_graph with a node count from {300, ..., 32768, 46341, 46342, 65536, 100000} and p = 1e-7); with absent = true the functions that have an error channel are given a name that is not in the graph (\"zz\", or 300 bytes of characters of mixed width). Each call runs under catch_unwind with the Louvain step budget and the watchdog, in the checked profile (overflow checks + debug assertions) and, through a worker process, in the release profile. Oracle: no panic and no hang in either profile; absent name => Err/None; unsupported kind of graph (the WrongMethod clauses of C02, C09, C10, C11, C15, eigenvector on multi-edge graphs) => Err; outcome kinds equal and values equal (floats within 1e-9) between the two profiles. Non-trivial = the graph has a degenerate feature (no node, no edge, an isolated or degree-one node, a self-loop, a parallel edge or >= 2 components); distinct = distinct serialised case.".into()
    }
    fn assumptions(&self) -> Vec<String> {
        vec![
            "weighted = true is only passed with graphs whose edges all carry positive weights".into(),
            "functions without an error channel (breadth_first_search, get_successors_or_neighbors, get_all_shortest_paths_involving, square_clustering, bfs_equal_size_partitions) only receive names that exist and k >= 1".into(),
            "the release binary harness/target/rel/gverif is built by ./check before the run".into(),
        ]
    }
    fn hang_is_violation(&self) -> bool {
        true
    }
    fn enumerate(&self, _tier: Tier) -> Vec<ApiCase> {
        let mut v = vec![];
        for kind in 0..8u8 {
            for n in 0..=3u8 {
                for wmode in [0u8, 1] {
                    let small = enumerate_small(kind, n, wmode);
                    if small.len() > 70 {
                        // sample: the full set for this kind is large
                        for (i, g) in small.into_iter().enumerate() {
                            if i % 9 == 0 {
                                v.push(ApiCase { g: g.clone(), sel: i as u64 + 1, absent: false });
                                v.push(ApiCase { g, sel: i as u64 + 7, absent: true });
                            }
                        }
                    } else {
                        for (i, g) in small.into_iter().enumerate() {
                            v.push(ApiCase { g: g.clone(), sel: i as u64 + 1, absent: false });
                            v.push(ApiCase { g, sel: i as u64 + 7, absent: true });
                        }
                    }
                }
            }
            // explicit degenerate shapes: parallel edges, loop + pendant, isolated + edge
            for (n, edges) in [(2u8, vec![(0u8, 1u8, 3u8), (0, 1, 6), (1, 0, 3)]), (3, vec![(0, 0, 3), (0, 1, 3)]), (4, vec![(1, 2, 3)]), (5, vec![(0, 1, 3), (1, 2, 3), (3, 4, 3)])] {
                for wmode in [0u8, 1] {
                    for absent in [false, true] {
                        v.push(ApiCase { g: GraphCase { kind, n, perm: 5, shape: 0, edges: edges.clone(), wmode, big_n: 0, big_seed: 0 }, sel: 3, absent });
                    }
                }
            }
        }
        v
    }
    fn strategy(&self, _tier: Tier) -> BoxedStrategy<ApiCase> {
        fn me(n: usize) -> usize {
            n + 1
        }
        fn few(_n: usize) -> usize {
            4
        }
        // medium-sized, mostly structured graphs (paths, cycles, stars, cliques, grids, layered
        // graphs with astronomically many equally short paths, circulants): valid inputs too
        // (the dense shapes are capped at 40 nodes: the table holds several cubic-time functions)
        let medium = graph_strategy(&ALL_KINDS, 21, 255, few, &[0, 1], 9).prop_map(|mut g| {
            if matches!(g.shape, 4 | 5 | 12) {
                g.n = g.n.min(40);
            }
            g
        });
        (prop_oneof![150 => graph_strategy(&ALL_KINDS, 0, 7, me, &[0, 1, 1, 2], 3), 1 => medium], prop_oneof![8 => any::<u64>(), 1 => prop::sample::select(vec![0u64, 1, u64::MAX, u64::MAX - 1, u64::MAX - 7, 1 << 63, (1 << 32) - 1, 1 << 32])], prop::bool::weighted(0.3)).prop_map(|(g, sel, absent)| ApiCase { g, sel, absent }).boxed()
    }
    fn case_timeout_s(&self) -> u64 {
        60
    }
    fn random_cases(&self, tier: Tier) -> u32 {
        tier.pick(30_000, 400_000)
    }
    fn check(&self, case: &ApiCase) -> Outcome {
        let mut out = Outcome::new();
        let table = run_table(case);
        out.api_calls += table.len() as u64;
        let ng = case.g.norm();
        for (name, expect, why, r) in &table {
            match r {
                R::Panic(p) => {
                    let class = if p.contains(graphrs::verif::STEP_BUDGET_EXHAUSTED) { "step_budget".to_string() } else { panic_class(p) };
                    let ctx = if case.absent { "absent_name" } else if ng.multi { "multi_edge" } else if ng.directed { "directed" } else { "undirected" };
                    out.fail(format!("{}/panic/{}/{}", name, class, ctx), format!("{} (checked profile)", p));
                }
                R::Val(..) if expect == "MustErr" => out.fail(format!("{}/must_use_error_channel/returned_value", name), format!("returned a value although: {}", why)),
                _ => {}
            }
        }
        match ask_release_worker(case) {
            Err(e) => {
                if e.contains("died") {
                    out.fail("release_profile/worker_died", e);
                } else {
                    eprintln!("cannot use the release worker (not a violation): {}", e);
                    std::process::exit(2);
                }
            }
            Ok(rel) => {
                out.api_calls += rel.len() as u64;
                for ((name, expect, why, r), (rname, rr)) in table.iter().zip(rel.iter()) {
                    if name != rname {
                        continue;
                    }
                    if let R::Panic(p) = rr {
                        if !matches!(r, R::Panic(_)) {
                            out.fail(format!("{}/panic_release_only/{}", name, panic_class(p)), format!("{} (release profile)", p));
                        }
                        continue;
                    }
                    if matches!(rr, R::Val(..)) && expect == "MustErr" && !matches!(r, R::Val(..)) {
                        out.fail(format!("{}/must_use_error_channel/returned_value_in_release", name), format!("release build returned a value although: {}", why));
                    }
                    if !matches!(r, R::Panic(_)) && !same(r, rr) {
                        // Louvain with a seed and tie-free data is deterministic; everything else too
                        out.fail(format!("{}/profiles_disagree", name), format!("checked: {:?} release: {:?}", r, rr));
                    }
                }
            }
        }
        let n = ng.n;
        let deg: Vec<usize> = (0..n).map(|i| ng.edges.iter().filter(|e| e.0 == i || e.1 == i).count()).collect();
        let degenerate = n == 0 || ng.edges.is_empty() || deg.iter().any(|x| *x <= 1) || ng.has_loop() || ng.has_parallel();
        out.class(format!("kind_{}", ng.spec().label()));
        out.class(if case.absent { "absent_name" } else { "existing_names" });
        if n == 0 {
            out.class("empty_graph");
        }
        if n > 0 && ng.edges.is_empty() {
            out.class("edgeless");
        }
        if ng.has_loop() {
            out.class("self_loop");
        }
        if ng.has_parallel() {
            out.class("parallel_edges");
        }
        out.nontrivial = degenerate;
        out
    }
}
