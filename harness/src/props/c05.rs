//! C05 — betweenness centrality equals its definition for every graph.

use crate::core::*;
use crate::engine::*;
use crate::graphcase::*;
use crate::oracle::*;
use graphrs::algorithms::centrality::betweenness::betweenness_centrality;
use proptest::prelude::*;
use proptest::strategy::BoxedStrategy;
use std::collections::HashMap;

pub struct C05;

/// compares a name-keyed result with an index-keyed expectation
pub fn compare_node_map(ng: &NormGraph, got: &HashMap<String, f64>, want: &[f64], rel: f64, abs: f64, ctx: &str, out: &mut Outcome) {
    if got.len() != ng.n || !ng.names.iter().all(|k| got.contains_key(k)) {
        out.fail(format!("{}/keys/one_entry_per_node", ctx), format!("{} entries for {} nodes", got.len(), ng.n));
        return;
    }
    for i in 0..ng.n {
        let x = got[&ng.names[i]];
        if !approx(x, want[i], rel, abs) {
            out.fail(
                if x > want[i] { format!("{}/value/too_large", ctx) } else if x < want[i] { format!("{}/value/too_small", ctx) } else { format!("{}/value/nan", ctx) },
                format!("node {} ({}): got {} want {}", i, ng.names[i], x, want[i]),
            );
            return;
        }
    }
}

pub fn edges_small(n: usize) -> usize {
    (n * 3).max(2)
}
pub fn edges_large(n: usize) -> usize {
    n * 3
}

/// marker in `GraphCase::shape` for a size-sweep case
pub const SWEEP: u8 = 255;

/// Every node count n in `big_n..=big_seed`: the graph made of disjoint three-node paths
/// a - b - c (directed: a -> b -> c) plus n mod 3 isolated nodes. Whatever n is, the raw betweenness
/// of every middle node is the same non-zero constant (it is taken from the 9-node instance, which
/// is checked against the brute-force oracle) and that of every other node is 0. Size-dependent
/// partitioning of the sources (blocks, batches, chunks per thread) cannot hide behind sampled
/// sizes this way.
fn sweep(case: &GraphCase) -> Outcome {
    use crate::model::{mk_edge, mk_node, SpecBits, G};
    let mut out = Outcome::new();
    let directed = case.kind & 1 == 1;
    let build = |n: usize| -> (G, Vec<String>) {
        let names: Vec<String> = (0..n).map(|i| format!("s{:05}", (i * 7919 + 13) % 100_003)).collect();
        let mut g = G::new(SpecBits::kind(directed, false, false).to_specs());
        g.add_nodes(names.iter().map(|x| mk_node(x, None)).collect());
        let mut i = 0;
        while i + 2 < n {
            g.add_edge(mk_edge(&names[i], &names[i + 1], f64::NAN)).expect("edge");
            g.add_edge(mk_edge(&names[i + 1], &names[i + 2], f64::NAN)).expect("edge");
            i += 3;
        }
        (g, names)
    };
    // the constant, from the 9-node instance and the brute-force oracle
    let ng9 = NormGraph { directed, multi: false, loops: false, n: 9, names: (0..9).map(|i| i.to_string()).collect(), order: (0..9).collect(), edges: vec![(0, 1, f64::NAN), (1, 2, f64::NAN), (3, 4, f64::NAN), (4, 5, f64::NAN), (6, 7, f64::NAN), (7, 8, f64::NAN)], weighted: false };
    let mut want9 = betweenness_brute(&weight_matrix(&ng9, false));
    rescale_betweenness(&mut want9, 9, false, directed);
    let middle = want9[1];
    assert!(middle > 0.0 && want9[0] == 0.0 && want9[4] == middle, "harness bug: closed form of the sweep family");
    for n in case.big_n as usize..=case.big_seed as usize {
        let (g, names) = build(n);
        out.api_calls += 1;
        match guard(|| betweenness_centrality(&g, false, false)) {
            Err(p) => out.fail(format!("betweenness_centrality[hops,norm=false]/panic/{}", panic_class(&p)), format!("n = {}: {}", n, p)),
            Ok(Err(e)) => out.fail(format!("betweenness_centrality[hops,norm=false]/error/{}", kind_of(&e)), format!("n = {}", n)),
            Ok(Ok(m)) => {
                if m.len() != n {
                    out.fail("betweenness_centrality[hops,norm=false]/keys/size_sweep", format!("n = {}: {} entries", n, m.len()));
                }
                let paths = n / 3;
                for (i, x) in names.iter().enumerate() {
                    let want = if i % 3 == 1 && i / 3 < paths { middle } else { 0.0 };
                    let got = m.get(x).copied().unwrap_or(f64::NAN);
                    if !approx(got, want, 1e-9, 1e-12) {
                        out.fail("betweenness_centrality[hops,norm=false]/ne_definition/size_sweep", format!("n = {} (disjoint 3-node paths): node at position {} has {} instead of {}", n, i, got, want));
                        break;
                    }
                }
            }
        }
        if !out.failures.is_empty() {
            break;
        }
    }
    out.class("size_sweep_every_node_count_in_a_range");
    out.nontrivial = true;
    out
}

impl Prop for C05 {
    type Case = GraphCase;
    fn id(&self) -> &'static str {
        "C05"
    }
    fn rule(&self) -> String {
        "graphs of all 8 kinds, n in 0..=8 (oracle: explicit enumeration of all shortest paths per ordered pair and counting those with v strictly inside) n in 9..=30 and boundary sizes up to 255 (oracle: sigma products on the Floyd-Warshall matrix), and one case in 4300 with a procedurally generated sparse graph of 300..3000 nodes (oracle: an independent Brandes implementation, itself compared with the brute-force oracle on every small case), shapes and shuffled insertion order as C04; weight modes unweighted / positive dyadic / tie-rich; every graph is evaluated in all of weighted x normalized that apply; tolerance 1e-9 relative. Exhaustive block: all graphs on <= 3 nodes of the single-edge kinds. Non-trivial = some node has non-zero betweenness and some pair has >= 2 shortest paths; distinct = distinct serialised case. Name-type independence: for every graph of <= 12 nodes and one in eight up to 64 (34 for path-returning calls) the same calls are repeated with a user-defined node-name type (lossy Display, heavily colliding Hash, Ord unrelated to insertion order) and must give the same order-independent results as with String names (floats within 1e-9). Each call runs in the ambient 16-thread pool or, selected by the case, inside a shared rayon pool of 1, 3, 24 or 64 threads (more threads than nodes for the 21..=60-node class). Size sweep (exhaustive block): every node count n in 21..=1200 (thorough: ..=9000) on the family of disjoint 3-node paths, where the raw betweenness of every middle node is a constant taken from the brute-force oracle at n = 9. Round 9: weight mode of neighbouring doubles (1, 1 + 2^-51, 1 + 2^-50) on graphs of <= 20 nodes; the weighted mode is checked when every distance is below 4 (all sums exact there) and skipped otherwise (counted): routes whose lengths differ by one ulp are not equally short.".into()
    }
    fn assumptions(&self) -> Vec<String> {
        vec!["positive weights; paths are node sequences (parallel edges do not multiply path counts)".into(), "float comparison with relative tolerance 1e-9 (the quotient sigma_sv*sigma_vt/sigma_st is not exact)".into()]
    }
    fn enumerate(&self, _tier: Tier) -> Vec<GraphCase> {
        let mut v = vec![];
        for kind in [0u8, 1, 4, 5] {
            for n in 0..=3u8 {
                for wmode in [0u8, 3] {
                    if kind == 5 && n == 3 && wmode == 3 {
                        continue;
                    }
                    v.extend(enumerate_small(kind, n, wmode));
                }
            }
        }
        // size sweep: every node count of a contiguous range (quick: 21..=1200, thorough: up to
        // 9000) on a family with a closed form, in chunks; `big_n..=big_seed` is the range
        let hi = _tier.pick(1200u32, 9000);
        let mut lo = 21u32;
        while lo <= hi {
            let step = if lo < 1200 { 100 } else { 40 };
            let end = (lo + step - 1).min(hi);
            for kind in [0u8, 1] {
                v.push(GraphCase { kind, n: 0, perm: 0, shape: SWEEP, edges: vec![], wmode: 0, big_n: lo, big_seed: end as u64 });
            }
            lo = end + 1;
        }
        v
    }
    fn strategy(&self, _tier: Tier) -> BoxedStrategy<GraphCase> {
        let small = graph_strategy(&ALL_KINDS, 0, 8, edges_small, &[0, 1, 3, 3, 5, 6, 15], 4);
        let mid = graph_strategy(&ALL_KINDS, 9, 20, edges_large, &[0, 1, 3, 15], 3);
        let large = graph_strategy(&ALL_KINDS, 21, 30, edges_large, &[0, 1, 3], 3);
        let boundary = boundary_graph_strategy(&ALL_KINDS, edges_large, &[0, 1, 3], 3, 255);
        let big = big_graph_strategy(&[0, 1], 300, 3000, &[0, 1]);
        // layered graphs (3 nodes per layer, complete between consecutive layers): 3^(n/3) shortest
        // paths between the ends, beyond 2^64 from 123 nodes on
        let layered = (proptest::sample::select(&[0u8, 1][..]), 90u8..=255, any::<u32>(), proptest::sample::select(&[0u8, 3][..]))
            .prop_map(|(kind, n, perm, wmode)| GraphCase { kind, n, perm, shape: 9, edges: vec![], wmode, big_n: 0, big_seed: 0 })
            .boxed();
        prop_oneof![8000 => small, 400 => mid, 200 => large, 20 => boundary, 4 => big, 3 => layered].boxed()
    }
    fn random_cases(&self, tier: Tier) -> u32 {
        tier.pick(150_000, 1_500_000)
    }
    fn check(&self, case: &GraphCase) -> Outcome {
        if case.shape == SWEEP {
            return sweep(case);
        }
        let mut out = Outcome::new();
        let ng = case.norm();
        let graph = ng.build();
        let n = ng.n;
        let mut any_tie = false;
        let mut any_nonzero = false;
        let modes: Vec<bool> = if n > 260 { vec![ng.weighted] } else if ng.weighted { vec![true, false] } else { vec![false] };
        for weighted in modes {
            let w = if n <= 260 { weight_matrix(&ng, weighted) } else { vec![] };
            if weighted && case.wmode == 15 {
                // neighbouring doubles: the oracles need exact sums, which holds iff every distance is below 4
                if !crate::oracle::ulp_exact(&floyd(&w)) {
                    out.class("wmode_15_skipped_distance_4_or_more");
                    continue;
                }
                out.class("wmode_15_routes_one_ulp_apart_possible");
            }
            let raw = if n <= 8 {
                let b = betweenness_brute(&w);
                // self-test of the fast oracle used for the large-size class
                let f = betweenness_fast(&ng, weighted);
                assert!(b.iter().zip(&f).all(|(x, y)| approx(*x, *y, 1e-9, 1e-12)), "harness bug: fast betweenness oracle disagrees with brute force");
                b
            } else if n <= 260 {
                betweenness_sigma(&w)
            } else {
                betweenness_fast(&ng, weighted)
            };
            if n <= 8 {
                let d = floyd(&w);
                for s in 0..n {
                    if sigma_from(&w, &d, s).iter().any(|x| *x >= 2.0) {
                        any_tie = true;
                    }
                }
            } else {
                any_tie = true;
            }
            if raw.iter().any(|x| *x > 0.0) {
                any_nonzero = true;
            }
            for normalized in if n > 260 { vec![n % 2 == 0] } else { vec![false, true] } {
                let mut want = raw.clone();
                rescale_betweenness(&mut want, n, normalized, ng.directed);
                let ctx = format!("betweenness_centrality[{},norm={}]", if weighted { "weighted" } else { "hops" }, normalized);
                out.api_calls += 1;
                match guard(|| crate::props::c17::in_some_pool(case.perm as u64 / 8 + normalized as u64, || betweenness_centrality(&graph, weighted, normalized))) {
                    Err(p) => out.fail(format!("{}/panic/{}", ctx, panic_class(&p)), p),
                    Ok(Err(e)) => out.fail(format!("{}/error/{}", ctx, kind_of(&e)), e.message.clone()),
                    Ok(Ok(got)) => compare_node_map(&ng, &got, &want, 1e-9, 1e-12, &ctx, &mut out),
                }
            }
        }
        out.class(format!("kind_{}", ng.spec().label()));
        out.class(format!("wmode_{}", case.wmode));
        out.class(if n > 260 { "large_graph_300_to_3000_nodes" } else if n <= 8 { "n<=8_bruteforce" } else if n <= 20 { "n_9_to_20" } else if n <= 30 { "n>20_parallel_path" } else { "boundary_size_31_to_255" });
        if n <= 2 {
            out.class("n<=2");
        }
        if case.shape == 9 && n >= 123 {
            out.class("more_than_2^64_shortest_paths");
        }
        crate::altkey::maybe_check(&ng, crate::altkey::Group::Betweenness, case.perm as u64, &mut out);
        out.nontrivial = any_tie && any_nonzero;
        out
    }
}
