//! C18 — eigenvector centrality returns a unit-norm approximate dominant eigenvector.

use crate::core::*;
use crate::engine::*;
use crate::graphcase::*;
use graphrs::algorithms::centrality::eigenvector::eigenvector_centrality;
use proptest::prelude::*;
use proptest::strategy::BoxedStrategy;
use serde::{Deserialize, Serialize};

#[derive(Clone, Debug, Serialize, Deserialize)]
pub struct EigCase {
    pub g: GraphCase,
    /// tolerance exponents: tol = 10^-(2 + t/25.5) in [1e-12, 1e-2]
    pub tols: Vec<u8>,
    pub weighted: bool,
}

pub struct C18;

const MAX_ITERS: [u32; 6] = [1, 2, 5, 20, 100, 1000];

fn tier_max_nodes(tier: Tier) -> u32 {
    tier.pick(2500, 70_000)
}

impl Prop for C18 {
    type Case = EigCase;
    fn id(&self) -> &'static str {
        "C18"
    }
    fn rule(&self) -> String {
        "single-edge graphs of both directions, with and without self-loops, n in 1..=14 (and one case in 3000 with a procedurally generated sparse graph of 200..2500 nodes, tolerance capped at 0.2/n), unweighted or non-negative dyadic weights (zeros included; also amounts of about 1e18, next to which the identity shift vanishes), shapes with slow convergence (paths, bipartite/layered DAGs, stars) and fast (regular, complete); every graph is evaluated on the grid max_iter in {1,2,5,20,100,1000} x 3 generated tolerances in [1e-12,1e-2], each call repeated twice (summation order varies with hash order). On Ok(x): one entry per node, all >= 0, | ||x||_2 - 1 | <= 1e-9, and one further documented step y = normalise(x + A^T x) satisfies ||y - x||_2 <= 2 ||M||_F n tol / max(1, ||M x|| - ||M||_F n tol) + 1e-9 with M = I + A^T (derived from the convergence test; sound for n <= 14, see DESIGN.md). On Err: PowerIterationFailedConvergence. Large graphs (incl. one fixed graph of 66 000 nodes) are additionally evaluated, as generated and in a very sparse variant (one edge in sixteen, hubs removed), at tolerances 1e-2, 5e-3 and the generated one, where entries, signs and the unit norm are checked. Metamorphic: Ok at (k, tol) => Ok at any (k' >= k, tol' >= tol(1+1e-6)). Non-trivial = n >= 3, the graph is an asymmetric directed graph or a slow-converging shape, and both Ok and Err outcomes occur on the grid; distinct = distinct serialised case.".into()
    }
    fn assumptions(&self) -> Vec<String> {
        vec![
            "the residual bound is loose by about 2 sqrt(n) ||M||: a slightly unconverged vector is not distinguished from a converged one".into(),
            "n <= 14 and tol <= 1e-2, so the convergence test cannot pass on the very first iteration against the un-normalised start vector (needed by the bound's derivation)".into(),
        ]
    }
    fn enumerate(&self, _tier: Tier) -> Vec<EigCase> {
        let mut v = vec![];
        for kind in [0u8, 1, 4, 5] {
            for n in 1..=3u8 {
                if kind == 5 && n == 3 {
                    continue;
                }
                for g in enumerate_small(kind, n, 0) {
                    v.push(EigCase { g, tols: vec![0, 100, 255], weighted: false });
                }
            }
        }
        // one graph beyond 2^16 nodes (positions no longer fit in 16 bits), weighted, with hubs
        v.push(EigCase { g: GraphCase { kind: 1, n: 0, perm: 0, shape: 0, edges: vec![], wmode: 1, big_n: 66_000, big_seed: 11 }, tols: vec![120], weighted: true });
        v
    }
    fn strategy(&self, _tier: Tier) -> BoxedStrategy<EigCase> {
        fn me(n: usize) -> usize {
            n * 2 + 1
        }
        let big = big_graph_strategy(&[0, 1], 200, tier_max_nodes(_tier), &[0, 1]);
        (prop_oneof![3000 => graph_strategy(&SINGLE_KINDS, 1, 14, me, &[0, 1, 2, 3, 12], 5), 1 => big], proptest::collection::vec(any::<u8>(), 3), any::<bool>()).prop_map(|(g, tols, weighted)| EigCase { g, tols, weighted }).boxed()
    }
    fn random_cases(&self, tier: Tier) -> u32 {
        tier.pick(30_000, 400_000)
    }
    fn check(&self, case: &EigCase) -> Outcome {
        let mut out = Outcome::new();
        let ng = case.g.norm();
        let graph = ng.build();
        let n = ng.n;
        let weighted = case.weighted && ng.weighted;
        let big = n > 100;
        // edge weights as the iteration sees them (a self-loop once)
        let wt = |w: f64| if weighted { w } else { 1.0 };
        // Frobenius norm of M = I + A^T from the edge list (single-edge graphs: one entry per pair)
        let mut diag = vec![1.0f64; n];
        let mut off2 = 0.0;
        for (i, j, w) in &ng.edges {
            if i == j {
                diag[*i] += wt(*w);
            } else {
                off2 += wt(*w) * wt(*w) * if ng.directed { 1.0 } else { 2.0 };
            }
        }
        let fro_all: f64 = (diag.iter().map(|x| x * x).sum::<f64>() + off2).sqrt();
        // ||M d||_2 <= ||d||_1 (1 + max_j ||row_j(A)||_2) is a second sound bound; use the smaller
        let mut row2 = vec![0.0f64; n];
        for (i, j, w) in &ng.edges {
            row2[*i] += wt(*w) * wt(*w);
            if !ng.directed && i != j {
                row2[*j] += wt(*w) * wt(*w);
            }
        }
        let alt = 1.0 + row2.iter().fold(0.0f64, |a, b| a.max(*b)).sqrt();
        let fro = fro_all.min(alt);
        // y = (I + A^T) v, sparse
        let step = |v: &[f64]| -> Vec<f64> {
            let mut y = v.to_vec();
            for (i, j, w) in &ng.edges {
                y[*j] += wt(*w) * v[*i];
                if !ng.directed && i != j {
                    y[*i] += wt(*w) * v[*j];
                }
            }
            y
        };
        let asymmetric_edges = ng.directed && {
            let set: std::collections::HashSet<(usize, usize)> = ng.edges.iter().map(|e| (e.0, e.1)).collect();
            ng.edges.iter().any(|e| !set.contains(&(e.1, e.0)))
        };
        let mut tols: Vec<f64> = case.tols.iter().map(|t| 10f64.powf(-(2.0 + *t as f64 / 25.5))).collect();
        if big {
            // n * tol must stay below 0.25 (see the derivation of the bound); fewer grid points
            tols = tols.into_iter().map(|t| t.min(0.2 / n as f64)).take(1).collect();
            if n > 10_000 {
                // a tight tolerance, so that the residual bound (about 250 n tol here) means something
                tols = vec![2e-10];
            }
        }
        let max_iters: Vec<u32> = if n > 10_000 { vec![150] } else if big { vec![50, 400] } else { MAX_ITERS.to_vec() };
        tols.sort_by(|x, y| x.partial_cmp(y).unwrap());
        let mut grid: Vec<(u32, f64, bool)> = vec![];
        for mi in max_iters {
            for tol in &tols {
                let mut outcome = None;
                for _rep in 0..(if big { 1 } else { 2 }) {
                    out.api_calls += 1;
                    let ctx = "eigenvector_centrality";
                    match guard(|| eigenvector_centrality(&graph, weighted, Some(mi), Some(*tol))) {
                        Err(p) => {
                            out.fail(format!("{}/panic/{}", ctx, panic_class(&p)), p);
                            return out;
                        }
                        Ok(Err(e)) => {
                            if std::env::var("VERIF_DEBUG").is_ok() {
                                eprintln!("C18 debug: n={} max_iter={} tol={:e} -> Err {}", n, mi, tol, kind_of(&e));
                            }
                            out.check(kind_of(&e) == "PowerIterationFailedConvergence", "eigenvector_centrality/error/kind", || kind_of(&e));
                            outcome.get_or_insert(false);
                        }
                        Ok(Ok(x)) => {
                            outcome = Some(true);
                            if x.len() != n || !ng.names.iter().all(|k| x.contains_key(k)) {
                                out.fail("eigenvector_centrality/keys/one_entry_per_node", format!("{} entries for {} nodes", x.len(), n));
                                return out;
                            }
                            let v: Vec<f64> = ng.names.iter().map(|k| x[k]).collect();
                            if v.iter().any(|e| !(*e >= 0.0)) {
                                out.fail("eigenvector_centrality/entries/negative_or_nan", format!("{:?}", v));
                                return out;
                            }
                            let norm: f64 = v.iter().map(|e| e * e).sum::<f64>().sqrt();
                            if (norm - 1.0).abs() > 1e-9 {
                                out.fail("eigenvector_centrality/norm/not_unit", format!("||x|| = {}", norm));
                                return out;
                            }
                            // one more documented step
                            let mut y: Vec<f64> = step(&v);
                            let ny: f64 = y.iter().map(|e| e * e).sum::<f64>().sqrt();
                            y.iter_mut().for_each(|e| *e /= ny);
                            let diff: f64 = y.iter().zip(&v).map(|(p, q)| (p - q) * (p - q)).sum::<f64>().sqrt();
                            // ||y - x|| <= 2 ||M (x - x_prev)|| / ||M x_prev|| and ||M x_prev|| >= ||M x|| -
                            // ||M|| ||x - x_prev|| (and >= 1, as M = I + A^T has no negative entry)
                            let slack = fro * n as f64 * tol;
                            let bound = 2.0 * slack / (ny - slack).max(1.0) + 1e-9;
                            if std::env::var("VERIF_DEBUG").is_ok() {
                                eprintln!("C18 debug: n={} max_iter={} tol={:e} diff={:e} bound={:e} fro={}", n, mi, tol, diff, bound, fro);
                            }
                            if diff > bound {
                                out.fail(
                                    if ng.directed { "eigenvector_centrality/fixed_point/directed_residual_too_large" } else { "eigenvector_centrality/fixed_point/undirected_residual_too_large" },
                                    format!("max_iter {} tol {:e}: one further step moves the vector by {:e} > bound {:e}; x = {:?}{}", mi, tol, diff, bound, &v[..v.len().min(12)], if v.len() > 12 { " ..." } else { "" }),
                                );
                                return out;
                            }
                        }
                    }
                }
                grid.push((mi, *tol, outcome.unwrap_or(false)));
            }
        }
        // Large graphs, loose tolerances, other densities: the residual bound above needs n * tol to
        // be small, but the rest of the statement (one entry per node, non-negative, unit norm) does
        // not. The graph itself and a very sparse variant (one edge in sixteen, hubs removed: most
        // nodes isolated) are evaluated at the loosest admissible tolerance and at the case's own.
        if big && out.failures.is_empty() {
            let mut sparse = ng.clone();
            let mut k = 0usize;
            sparse.edges.retain(|(i, j, _)| {
                k += 1;
                *i >= 2 && *j >= 2 && k % 16 == 0
            });
            let raw_tol = case.tols.first().map_or(1e-2, |t| 10f64.powf(-(2.0 + *t as f64 / 25.5)));
            for (what, g2) in [("as_generated", &ng), ("very_sparse", &sparse)] {
                let graph2 = if what == "as_generated" { None } else { Some(g2.build()) };
                let gr = graph2.as_ref().unwrap_or(&graph);
                // (beyond 10 000 nodes one iteration of the library takes a sizeable fraction of a
                // second: only the two loosest tolerances and 40 iterations there)
                let tols: Vec<f64> = if n > 10_000 { vec![1e-2, 5e-3] } else { vec![1e-2, 5e-3, raw_tol] };
                let budget = if n > 10_000 { 40 } else { 100 };
                for tol in tols {
                    out.api_calls += 1;
                    match guard(|| eigenvector_centrality(gr, weighted, Some(budget), Some(tol))) {
                        Err(p) => {
                            out.fail(format!("eigenvector_centrality/panic/{}", panic_class(&p)), p);
                            return out;
                        }
                        Ok(Err(e)) => {
                            out.check(kind_of(&e) == "PowerIterationFailedConvergence", "eigenvector_centrality/error/kind", || kind_of(&e));
                        }
                        Ok(Ok(x)) => {
                            if x.len() != n || !g2.names.iter().all(|k| x.contains_key(k)) {
                                out.fail("eigenvector_centrality/keys/one_entry_per_node", format!("{} entries for {} nodes ({}, tol {:e})", x.len(), n, what, tol));
                                return out;
                            }
                            if x.values().any(|e| !(*e >= 0.0)) {
                                out.fail("eigenvector_centrality/entries/negative_or_nan", format!("{} graph, tol {:e}", what, tol));
                                return out;
                            }
                            let norm: f64 = x.values().map(|e| e * e).sum::<f64>().sqrt();
                            if (norm - 1.0).abs() > 1e-9 {
                                out.fail("eigenvector_centrality/norm/not_unit", format!("||x|| = {} (n = {}, {} graph with {} edges, tol {:e})", norm, n, what, g2.edges.len(), tol));
                                return out;
                            }
                        }
                    }
                }
            }
            out.class("large_graph_loose_tolerance_and_sparse_variant");
        }
        // metamorphic monotonicity
        for (mi1, t1, ok1) in &grid {
            for (mi2, t2, ok2) in &grid {
                if *ok1 && !*ok2 && mi2 >= mi1 && *t2 >= *t1 * (1.0 + 1e-6) {
                    out.fail("eigenvector_centrality/monotone/ok_then_err_with_more_budget", format!("Ok at ({}, {:e}) but Err at ({}, {:e})", mi1, t1, mi2, t2));
                    return out;
                }
            }
        }
        let any_ok = grid.iter().any(|g| g.2);
        let any_err = grid.iter().any(|g| !g.2);
        let asymmetric = asymmetric_edges;
        let slow = matches!(case.g.shape, 1 | 3 | 9);
        out.class(format!("kind_{}", ng.spec().label()));
        out.class(if weighted { "weighted" } else { "unweighted" });
        if big {
            out.class(format!("large_graph_n_above_{}", if n > 1000 { 1000 } else { 200 }));
        }
        if any_ok && any_err {
            out.class("both_ok_and_err_on_grid");
        }
        if asymmetric {
            out.class("asymmetric_directed");
        }
        out.nontrivial = n >= 3 && (asymmetric || slow) && any_ok && (any_err || big);
        out
    }
}
