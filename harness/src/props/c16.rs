//! C16 — generators produce the graph family they name.

use crate::core::*;
use crate::engine::*;
use graphrs::generators::{classic, random, social};
use graphrs::Graph;
use proptest::prelude::*;
use proptest::strategy::BoxedStrategy;
use serde::{Deserialize, Serialize};
use std::collections::BTreeSet;

#[derive(Clone, Debug, Serialize, Deserialize)]
pub enum GenCase {
    Complete { n: u16, directed: bool },
    /// p = decode_p(pclass, praw)
    Gnp { n: u16, pclass: u8, praw: u32, directed: bool, seed: u64 },
    /// `count` consecutive seeds with one (n, p)
    GnpBatch { n: u16, pclass: u8, praw: u32, directed: bool, seed0: u64, count: u16 },
    /// invalid probability: 0 => 0.0, 1 => 1.0, 2 => -0.25, 3 => 1.5, 4 => +inf, 5 => -inf, 6 => -0.0
    GnpInvalid { n: u16, which: u8, directed: bool, seed: u64 },
    /// statistical cell: `samples` seeds starting at `seed0`
    Stat { n: u16, p_milli: u16, directed: bool, seed0: u64, samples: u16 },
    Karate,
    /// per-node marginals in the sparse regime: `samples` seeds from `seed0`, p = p_micro * 1e-6
    Marginals { n: u16, p_micro: u32, directed: bool, seed0: u64, samples: u32 },
    /// every possible pair occurs in some graph of 16 seeds at p = 0.9 and is missing from some graph
    /// of 20 seeds at p = 0.1 (sizes beyond 256 nodes, where per-pair statistics are out of reach)
    Coverage { n: u16, directed: bool, seed0: u64 },
}

pub struct C16;

const ZACHARY: [(i32, i32); 78] = [
    (0, 1), (0, 2), (0, 3), (0, 4), (0, 5), (0, 6), (0, 7), (0, 8), (0, 10), (0, 11), (0, 12), (0, 13), (0, 17), (0, 19), (0, 21), (0, 31),
    (1, 2), (1, 3), (1, 7), (1, 13), (1, 17), (1, 19), (1, 21), (1, 30), (2, 3), (2, 7), (2, 8), (2, 9), (2, 13), (2, 27), (2, 28), (2, 32),
    (3, 7), (3, 12), (3, 13), (4, 6), (4, 10), (5, 6), (5, 10), (5, 16), (6, 16), (8, 30), (8, 32), (8, 33), (9, 33), (13, 33), (14, 32),
    (14, 33), (15, 32), (15, 33), (18, 32), (18, 33), (19, 33), (20, 32), (20, 33), (22, 32), (22, 33), (23, 25), (23, 27), (23, 29),
    (23, 32), (23, 33), (24, 25), (24, 27), (24, 31), (25, 31), (26, 29), (26, 33), (27, 33), (28, 31), (28, 33), (29, 32), (29, 33),
    (30, 32), (30, 33), (31, 32), (31, 33), (32, 33),
];

/// seeds: mostly uniform, sometimes at the edges of the u64 range
pub fn seed_strategy() -> BoxedStrategy<u64> {
    prop_oneof![10 => any::<u64>(), 1 => prop::sample::select(vec![0u64, 1, 2, u64::MAX, u64::MAX - 1, u64::MAX - 3, u64::MAX - 299, 1 << 63, (1 << 63) - 1, (1 << 32) - 1, 1 << 32])].boxed()
}

pub fn decode_p(pclass: u8, praw: u32, n: u16) -> f64 {
    match pclass % 7 {
        // relative to the size: the expected skip spans 2^j / 2 rows of the pair grid (j = 0..=15),
        // i.e. the expected number of edges per node is 2, 1, 1/2, ... 2^-14
        6 => (2.0 * 0.5f64.powi((praw % 16) as i32) / (n.max(2) as f64)).min(0.999),
        0 => ((praw % 999) as f64 + 0.5) / 1000.0,                 // mid range
        1 => 1e-12 * (1.0 + (praw % 100_000) as f64),              // tiny: 1e-12 .. 1e-7
        2 => 1.0 - 1e-12 * (1.0 + (praw % 1000) as f64),           // just below 1
        3 => 1e-9 * (1.0 + (praw % 20) as f64),                    // 1e-9 * k
        4 => [0.001, 0.01, 0.05, 0.5, 0.9, 0.99, 0.999][(praw % 7) as usize],
        _ => 10f64.powi(-(13 + (praw % 295) as i32)),               // below the resolution of 1 - p
    }
}

/// Structural check of one G(n,p) result. Returns the number of edges.
fn check_gnp_graph(g: &Graph<i32, ()>, n: u16, directed: bool, out: &mut Outcome, pairs_seen: Option<&mut BTreeSet<(i32, i32)>>) -> usize {
    let names: Vec<i32> = g.get_all_node_names().into_iter().copied().collect();
    let set: BTreeSet<i32> = names.iter().copied().collect();
    let want: BTreeSet<i32> = (0..n as i32).collect();
    if set != want || names.len() != n as usize {
        out.fail(
            if set.iter().any(|x| *x < 0 || *x >= n as i32) { "fast_gnp_random_graph/nodes/foreign_node" } else { "fast_gnp_random_graph/nodes/ne_0_to_n" },
            format!("{} nodes, min {:?} max {:?}, want 0..{}", names.len(), set.iter().next(), set.iter().last(), n),
        );
    }
    out.check(g.specs.directed == directed, "fast_gnp_random_graph/directedness/ne_requested", || format!("{}", g.specs.directed));
    let mut seen = BTreeSet::new();
    let edges = g.get_all_edges();
    for e in &edges {
        if e.u == e.v {
            out.fail("fast_gnp_random_graph/edges/self_loop", format!("({}, {})", e.u, e.v));
        }
        let key = if !directed && e.u > e.v { (e.v, e.u) } else { (e.u, e.v) };
        if !seen.insert(key) {
            out.fail("fast_gnp_random_graph/edges/repeated_pair", format!("{:?}", key));
        }
    }
    if let Some(p) = pairs_seen {
        p.extend(seen.iter().copied());
    }
    edges.len()
}

impl Prop for C16 {
    type Case = GenCase;
    fn id(&self) -> &'static str {
        "C16"
    }
    fn rule(&self) -> String {
        "exhaustive block: complete_graph(n, d) for every n in 0..=60 and both d; a sweep of p = 2^-j * 2/n (j = 0..=13) x n in {17,33,65,129} x d with 20000 (n = 129: 10000; thorough x 10) consecutive seeds each, and of p in {1e-9, 3e-9} at n = 300 with 150000 seeds (structural check only); one statistical cell per n in {2,3,5,8,13,30,60} x p in {0.05,0.2,0.5,0.8,0.95} x d with 400 (quick) / 3000 (thorough) consecutive seeds: |mean edges - pN| <= pN/(n-1) + 8 sqrt(N p (1-p)/S), and for n <= 6, p >= 0.2 every possible pair occurs at least once; per-node marginals (out / in / incident edge ends over 2000..400000 seeds) for 8 sparse (n, p) cells with p around 1/n^2 and 1/n: every node's count lies between Binomial(S(n-1), p) - 8 sd and that plus S p + 8 sd; the karate-club graph against the Zachary edge list exported from NetworkX. Random block: fast_gnp_random_graph(n, p, d, seed) for n in 0..=300 with p from seven classes (mid range, 1e-12..1e-7, 1-1e-12.., 1e-9*k, round values, 1e-13..1e-307, 2^-j * 2/n), single draws and batches of consecutive seeds: Ok, nodes exactly 0..n-1, no self-loop, no repeated pair (orientation-insensitive when undirected); invalid p in {0, 1, -0.25, 1.5, +-inf, -0.0} => InvalidArgument; complete graphs for sampled n in 61..=300. Non-trivial = a draw with n >= 2 that produced >= 1 edge, a statistical cell, or a complete graph with n >= 2; distinct = distinct serialised case. Round 9: pair coverage at n = 261 and 300, both directednesses: over 16 seeds at p = 0.9 every possible pair occurs at least once (a miss has probability 1e-16 per pair), over 20 seeds at p = 0.1 every pair is missing at least once (at most 0.2^20 per pair).".into()
    }
    fn assumptions(&self) -> Vec<String> {
        vec![
            "the statistical bound uses 8 standard deviations of a binomial count: false-alarm probability < 1e-14 per cell".into(),
            "p = NaN is not used for the rejection clause".into(),
        ]
    }
    fn enumerate(&self, tier: Tier) -> Vec<GenCase> {
        let mut v = vec![GenCase::Karate];
        for n in 0..=60u16 {
            v.push(GenCase::Complete { n, directed: false });
            v.push(GenCase::Complete { n, directed: true });
        }
        // sweep of tiny probabilities at the largest size: the skip length (ln r / ln(1-p)) then
        // exceeds i32 in a sizeable fraction of draws
        for i in 0..tier.pick(150u64, 1500) {
            for directed in [true, false] {
                for praw in [0u32, 2] {
                    v.push(GenCase::GnpBatch { n: 300, pclass: 3, praw, directed, seed0: i * 1000, count: 1000 });
                }
            }
        }
        // sweep of size-relative probabilities (expected skip = 2^j / 2 rows, j = 0..=13) at sizes
        // just above powers of two, many seeds each with the structural check only: a skip that
        // lands on one particular slot of the grid is an event of probability ~ 1/(e * rows * n)
        for (n, batches) in [(17u16, 20u64), (33, 20), (65, 20), (129, 10)] {
            for j in 0..14u32 {
                for directed in [true, false] {
                    for b in 0..batches * tier.pick(1, 10) {
                        v.push(GenCase::GnpBatch { n, pclass: 6, praw: j, directed, seed0: 7_000_000 + b * 1000, count: 1000 });
                    }
                }
            }
        }
        // per-node marginals, p around 1/n^2 and 1/n (one skip of the generator then spans the
        // whole grid, or a row): enough seeds for about 500 expected edge ends per node
        for (n, p_micro) in [(3u16, 100_000u32), (6, 20_000), (6, 60_000), (13, 6_000), (13, 40_000), (40, 600), (40, 100), (40, 12_000)] {
            for directed in [true, false] {
                let per_seed = p_micro as f64 * 1e-6 * (n as f64 - 1.0);
                let samples = ((500.0 / per_seed) as u32).clamp(2_000, 400_000) * tier.pick(1, 4);
                v.push(GenCase::Marginals { n, p_micro, directed, seed0: 90_000_000 + n as u64 * 1_000_000 + p_micro as u64, samples });
            }
        }
        for n in [261u16, 300] {
            for directed in [true, false] {
                v.push(GenCase::Coverage { n, directed, seed0: 55_000_000 + n as u64 * 1000 });
            }
        }
        let samples = tier.pick(400, 3000);
        let mut k = 0u64;
        for n in [2u16, 3, 5, 8, 13, 30, 60] {
            for p_milli in [50u16, 200, 500, 800, 950] {
                for directed in [false, true] {
                    k += 1;
                    v.push(GenCase::Stat { n, p_milli, directed, seed0: k * 1_000_003, samples });
                }
            }
        }
        v
    }
    fn strategy(&self, _tier: Tier) -> BoxedStrategy<GenCase> {
        prop_oneof![
            12 => (0u16..=300, any::<u8>(), any::<u32>(), any::<bool>(), seed_strategy()).prop_map(|(n, pclass, praw, directed, seed)| GenCase::Gnp { n, pclass, praw, directed, seed }),
            6 => (prop_oneof![0u16..=20, 250u16..=300], prop_oneof![Just(1u8), Just(3u8), Just(6u8)], any::<u32>(), any::<bool>(), any::<u64>(), 1u16..400).prop_map(|(n, pclass, praw, directed, seed0, count)| GenCase::GnpBatch { n, pclass, praw, directed, seed0, count }),
            2 => (0u16..=300, 0u8..7, any::<bool>(), any::<u64>()).prop_map(|(n, which, directed, seed)| GenCase::GnpInvalid { n, which, directed, seed }),
            1 => (61u16..=300, any::<bool>()).prop_map(|(n, directed)| GenCase::Complete { n, directed }),
            1 => (prop_oneof![Just(2u16), Just(4u16), Just(6u16), Just(20u16)], 20u16..980, any::<bool>(), any::<u64>()).prop_map(|(n, p_milli, directed, seed0)| GenCase::Stat { n, p_milli, directed, seed0, samples: 300 }),
        ]
        .boxed()
    }
    fn random_cases(&self, tier: Tier) -> u32 {
        tier.pick(8_000, 100_000)
    }
    fn check(&self, case: &GenCase) -> Outcome {
        let mut out = Outcome::new();
        match case {
            GenCase::Karate => {
                out.api_calls += 1;
                match guard(social::karate_club_graph) {
                    Err(p) => out.fail(format!("karate_club_graph/panic/{}", panic_class(&p)), p),
                    Ok(g) => {
                        out.check(!g.specs.directed, "karate_club_graph/directedness/undirected", || "directed".into());
                        let nodes: BTreeSet<i32> = g.get_all_node_names().into_iter().copied().collect();
                        out.check(nodes == (0..34).collect() && g.number_of_nodes() == 34, "karate_club_graph/nodes/34", || format!("{}", g.number_of_nodes()));
                        let mut es: Vec<(i32, i32)> = g.get_all_edges().iter().map(|e| (e.u.min(e.v), e.u.max(e.v))).collect();
                        es.sort();
                        out.check(es.len() == 78, "karate_club_graph/edges/78", || format!("{}", es.len()));
                        out.check(es == ZACHARY.to_vec(), "karate_club_graph/edges/ne_zachary", || format!("{:?}", es));
                    }
                }
                out.class("karate");
                out.nontrivial = true;
            }
            GenCase::Complete { n, directed } => {
                out.api_calls += 1;
                match guard(|| classic::complete_graph(*n as i32, *directed)) {
                    Err(p) => out.fail(format!("complete_graph/panic/{}", panic_class(&p)), p),
                    Ok(g) => {
                        let names: Vec<i32> = g.get_all_node_names().into_iter().copied().collect();
                        let set: BTreeSet<i32> = names.iter().copied().collect();
                        if set != (0..*n as i32).collect() || names.len() != *n as usize {
                            out.fail(if *n == 1 { "complete_graph/nodes/single_node_missing" } else { "complete_graph/nodes/ne_0_to_n" }, format!("complete_graph({}, {}) has nodes {:?}", n, directed, names.iter().take(8).collect::<Vec<_>>()));
                        }
                        out.check(g.specs.directed == *directed, "complete_graph/directedness/ne_requested", || format!("{}", g.specs.directed));
                        let mut es: Vec<(i32, i32)> = g.get_all_edges().iter().map(|e| if !*directed && e.u > e.v { (e.v, e.u) } else { (e.u, e.v) }).collect();
                        es.sort();
                        let mut want = vec![];
                        for i in 0..*n as i32 {
                            for j in 0..*n as i32 {
                                if i != j && (*directed || i < j) {
                                    want.push((i, j));
                                }
                            }
                        }
                        out.check(es == want, "complete_graph/edges/ne_all_pairs_once", || format!("{} edges, want {}", es.len(), want.len()));
                    }
                }
                out.class("complete");
                out.nontrivial = *n >= 2;
            }
            GenCase::Gnp { n, pclass, praw, directed, seed } => {
                let p = decode_p(*pclass, *praw, *n);
                out.api_calls += 1;
                match guard(|| random::fast_gnp_random_graph(*n as i32, p, *directed, Some(*seed))) {
                    Err(pm) => out.fail(format!("fast_gnp_random_graph/panic/{}", panic_class(&pm)), format!("n={} p={:e} directed={} seed={}: {}", n, p, directed, seed, pm)),
                    Ok(Err(e)) => out.fail(format!("fast_gnp_random_graph/valid_p_rejected/{}", kind_of(&e)), format!("p = {:e}", p)),
                    Ok(Ok(g)) => {
                        let m = check_gnp_graph(&g, *n, *directed, &mut out, None);
                        out.nontrivial = *n >= 2 && m >= 1;
                    }
                }
                out.class(format!("p_class_{}", pclass % 7));
                out.class(if *directed { "directed" } else { "undirected" });
            }
            GenCase::GnpBatch { n, pclass, praw, directed, seed0, count } => {
                let p = decode_p(*pclass, *praw, *n);
                let mut edges = 0;
                for k in 0..*count as u64 {
                    let seed = seed0.wrapping_add(k);
                    out.api_calls += 1;
                    match guard(|| random::fast_gnp_random_graph(*n as i32, p, *directed, Some(seed))) {
                        Err(pm) => out.fail(format!("fast_gnp_random_graph/panic/{}", panic_class(&pm)), format!("n={} p={:e} directed={} seed={}: {}", n, p, directed, seed, pm)),
                        Ok(Err(e)) => out.fail(format!("fast_gnp_random_graph/valid_p_rejected/{}", kind_of(&e)), format!("p = {:e}", p)),
                        Ok(Ok(g)) => edges += check_gnp_graph(&g, *n, *directed, &mut out, None),
                    }
                    if !out.failures.is_empty() {
                        break;
                    }
                }
                out.class(if *pclass % 7 == 6 { "size_relative_p_batch" } else { "tiny_p_batch" });
                out.nontrivial = *n >= 2 && edges >= 1;
            }
            GenCase::GnpInvalid { n, which, directed, seed } => {
                let p = [0.0, 1.0, -0.25, 1.5, f64::INFINITY, f64::NEG_INFINITY, -0.0][*which as usize % 7];
                out.api_calls += 1;
                match guard(|| random::fast_gnp_random_graph(*n as i32, p, *directed, Some(*seed))) {
                    Err(pm) => out.fail(format!("fast_gnp_random_graph/panic/{}", panic_class(&pm)), pm),
                    Ok(Err(e)) => {
                        out.check(kind_of(&e) == "InvalidArgument", "fast_gnp_random_graph/invalid_p/error_kind", || kind_of(&e));
                    }
                    Ok(Ok(_)) => out.fail("fast_gnp_random_graph/invalid_p/accepted", format!("p = {} accepted", p)),
                }
                out.class("invalid_p");
            }
            GenCase::Coverage { n, directed, seed0 } => {
                // Every pair is present with probability at least p and at most 2p, independently per
                // seed: a pair absent from all 16 graphs at p = 0.9 has probability 1e-16, a pair
                // present in all 20 graphs at p = 0.1 at most 0.2^20 = 1e-14 (times < 1e5 pairs).
                let nn = *n as usize;
                for (p, draws, want_present) in [(0.9f64, 16u64, true), (0.1, 20, false)] {
                    let mut ever = vec![false; nn * nn];
                    let mut always = vec![true; nn * nn];
                    for k in 0..draws {
                        out.api_calls += 1;
                        let seed = seed0.wrapping_add(k).wrapping_add(if want_present { 0 } else { 500 });
                        match guard(|| random::fast_gnp_random_graph(*n as i32, p, *directed, Some(seed))) {
                            Err(pm) => out.fail(format!("fast_gnp_random_graph/panic/{}", panic_class(&pm)), pm),
                            Ok(Err(e)) => out.fail(format!("fast_gnp_random_graph/valid_p_rejected/{}", kind_of(&e)), format!("p = {}", p)),
                            Ok(Ok(g)) => {
                                let mut here = vec![false; nn * nn];
                                for e in g.get_all_edges() {
                                    if e.u < 0 || e.v < 0 || e.u as usize >= nn || e.v as usize >= nn {
                                        out.fail("fast_gnp_random_graph/nodes/foreign_node", format!("edge ({}, {})", e.u, e.v));
                                        break;
                                    }
                                    let (a, b) = (e.u as usize, e.v as usize);
                                    here[a * nn + b] = true;
                                    if !*directed {
                                        here[b * nn + a] = true;
                                    }
                                }
                                for i in 0..nn * nn {
                                    ever[i] |= here[i];
                                    always[i] &= here[i];
                                }
                            }
                        }
                        if !out.failures.is_empty() {
                            return out;
                        }
                    }
                    for a in 0..nn {
                        for b in 0..nn {
                            if a == b {
                                continue;
                            }
                            if want_present && !ever[a * nn + b] {
                                out.fail(format!("fast_gnp_random_graph/distribution/{}_pair_never_generated", if *directed { "directed" } else { "undirected" }), format!("n={} p={} directed={}: pair ({}, {}) in none of {} graphs (seeds from {})", n, p, directed, a, b, draws, seed0));
                                return out;
                            }
                            if !want_present && always[a * nn + b] {
                                out.fail(format!("fast_gnp_random_graph/distribution/{}_pair_always_generated", if *directed { "directed" } else { "undirected" }), format!("n={} p={} directed={}: pair ({}, {}) in all {} graphs (seeds from {})", n, p, directed, a, b, draws, seed0 + 500));
                                return out;
                            }
                        }
                    }
                }
                out.class("pair_coverage_beyond_256_nodes");
                out.nontrivial = true;
            }
            GenCase::Marginals { n, p_micro, directed, seed0, samples } => {
                // In G(n,p) every possible pair is present with probability p. The published
                // skipping scheme gives the slot after a diagonal slot up to 2p (the allowance of
                // the statement), every other pair exactly p. So over S seeds the number of edge
                // ends at a node - out-edges, in-edges (directed) or incident edges (undirected) -
                // is at least Binomial(S (n-1), p) and at most that plus Binomial(S, p) more:
                // bounds at 8 standard deviations (false-alarm probability below 1e-14 per node).
                let p = *p_micro as f64 * 1e-6;
                let nn = *n as usize;
                let mut out_deg = vec![0u64; nn];
                let mut in_deg = vec![0u64; nn];
                for k in 0..*samples as u64 {
                    out.api_calls += 1;
                    match guard(|| random::fast_gnp_random_graph(*n as i32, p, *directed, Some(seed0.wrapping_add(k)))) {
                        Err(pm) => out.fail(format!("fast_gnp_random_graph/panic/{}", panic_class(&pm)), pm),
                        Ok(Err(e)) => out.fail(format!("fast_gnp_random_graph/valid_p_rejected/{}", kind_of(&e)), format!("p = {}", p)),
                        Ok(Ok(g)) => {
                            for e in g.get_all_edges() {
                                if e.u < 0 || e.v < 0 || e.u as usize >= nn || e.v as usize >= nn {
                                    out.fail("fast_gnp_random_graph/nodes/foreign_node", format!("edge ({}, {})", e.u, e.v));
                                    break;
                                }
                                out_deg[e.u as usize] += 1;
                                in_deg[e.v as usize] += 1;
                            }
                        }
                    }
                    if !out.failures.is_empty() {
                        return out;
                    }
                }
                let s = *samples as f64;
                let mean = s * (nn as f64 - 1.0) * p;
                let sd = (s * (nn as f64 - 1.0) * p * (1.0 - p)).sqrt();
                let lo = mean - 8.0 * sd;
                let hi = mean + s * p + 8.0 * (sd + (s * p).sqrt());
                for v in 0..nn {
                    let counts: Vec<(&str, f64)> = if *directed { vec![("out", out_deg[v] as f64), ("in", in_deg[v] as f64)] } else { vec![("incident", (out_deg[v] + in_deg[v]) as f64)] };
                    for (what, c) in counts {
                        if c < lo || c > hi {
                            out.fail(
                                format!("fast_gnp_random_graph/distribution/{}_node_marginal_{}", if *directed { "directed" } else { "undirected" }, if c < lo { "too_low" } else { "too_high" }),
                                format!("n={} p={} directed={}: node {} has {} {} edge ends over {} seeds, expected {:.1} (bounds {:.1} .. {:.1})", n, p, directed, v, c, what, samples, mean, lo, hi),
                            );
                            return out;
                        }
                    }
                }
                out.class("per_node_marginals_sparse_regime");
                out.nontrivial = true;
            }
            GenCase::Stat { n, p_milli, directed, seed0, samples } => {
                let p = *p_milli as f64 / 1000.0;
                let nn = *n as f64;
                let pairs = if *directed { nn * (nn - 1.0) } else { nn * (nn - 1.0) / 2.0 };
                let mut total = 0usize;
                let mut seen = BTreeSet::new();
                for k in 0..*samples as u64 {
                    out.api_calls += 1;
                    match guard(|| random::fast_gnp_random_graph(*n as i32, p, *directed, Some(seed0.wrapping_add(k)))) {
                        Err(pm) => out.fail(format!("fast_gnp_random_graph/panic/{}", panic_class(&pm)), pm),
                        Ok(Err(e)) => out.fail(format!("fast_gnp_random_graph/valid_p_rejected/{}", kind_of(&e)), format!("p = {}", p)),
                        Ok(Ok(g)) => total += check_gnp_graph(&g, *n, *directed, &mut out, Some(&mut seen)),
                    }
                    if !out.failures.is_empty() {
                        return out;
                    }
                }
                let s = *samples as f64;
                let mean = total as f64 / s;
                let expect = p * pairs;
                let allowance = expect / (nn - 1.0) + 8.0 * (pairs * p * (1.0 - p) / s).sqrt();
                if (mean - expect).abs() > allowance {
                    out.fail(
                        if *directed { "fast_gnp_random_graph/distribution/directed_mean_edges" } else { "fast_gnp_random_graph/distribution/undirected_mean_edges" },
                        format!("n={} p={} directed={}: mean edges over {} seeds = {:.3}, expected {:.3} +- {:.3}", n, p, directed, samples, mean, expect, allowance),
                    );
                }
                if *n <= 6 && p >= 0.2 && *samples >= 300 {
                    let possible = pairs as usize;
                    out.check(seen.len() == possible, if *directed { "fast_gnp_random_graph/support/directed_pair_never_occurs" } else { "fast_gnp_random_graph/support/undirected_pair_never_occurs" }, || {
                        format!("n={} p={}: only {} of {} possible pairs occurred in {} graphs", n, p, seen.len(), possible, samples)
                    });
                }
                out.class("statistical_cell");
                out.nontrivial = true;
            }
        }
        out
    }
}
