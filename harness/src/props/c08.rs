//! C08 — shortest-path options restrict the answer but never change it (metamorphic relations).

use crate::core::*;
use crate::engine::*;
use crate::graphcase::*;
use graphrs::algorithms::shortest_path::{dijkstra, ShortestPathInfo};
use proptest::prelude::*;
use proptest::strategy::BoxedStrategy;
use serde::{Deserialize, Serialize};
use std::collections::{BTreeMap, HashMap};

#[derive(Clone, Debug, Serialize, Deserialize)]
pub struct OptCase {
    pub g: GraphCase,
    /// selector bits for sampled targets / cutoffs / option pairs on larger graphs
    pub sel: u64,
}

pub struct C08;

/// canonical answer: target -> (distance bits, sorted path list)
type Ans = BTreeMap<String, (u64, Vec<Vec<String>>)>;

fn canon(m: &HashMap<String, ShortestPathInfo<String>>) -> Ans {
    m.iter()
        .map(|(k, v)| {
            let mut p = v.paths.clone();
            p.sort();
            (k.clone(), ((v.distance + 0.0).to_bits(), p))
        })
        .collect()
}

fn dist_of(a: &Ans, k: &str) -> Option<f64> {
    a.get(k).map(|x| f64::from_bits(x.0))
}

/// `restricted` must be a sub-answer of `full`: same distance, and paths equal (all-paths mode),
/// one of them (first_only) or empty (with_paths = false).
thread_local! {
    /// set while a graph with mixed magnitudes is checked in weighted mode: positive weights can be
    /// absorbed there (d + w == d), which makes the *set* of equally short paths depend on the order
    /// in which nodes of equal distance are settled; only keys and distances are compared then
    static DIST_ONLY: std::cell::Cell<bool> = const { std::cell::Cell::new(false) };
}

fn sub_entry(full: &(u64, Vec<Vec<String>>), got: &(u64, Vec<Vec<String>>), fo: bool, wp: bool) -> Result<(), &'static str> {
    if full.0 != got.0 {
        return Err("distance_changed");
    }
    if DIST_ONLY.with(|d| d.get()) {
        return Ok(());
    }
    if !wp {
        return if got.1.is_empty() { Ok(()) } else { Err("paths_not_empty") };
    }
    if fo {
        if got.1.len() != 1 {
            return Err("first_only_path_count");
        }
        return if full.1.contains(&got.1[0]) { Ok(()) } else { Err("first_only_path_not_in_all_paths") };
    }
    if full.1 != got.1 {
        return Err("paths_changed");
    }
    Ok(())
}

/// Error paths must not poison later calls. One time in `every`, before a case is checked, the
/// shortest-path functions are driven down their error path on the same OS thread and inside the
/// shared rayon pools: a small directed graph in which a negative edge improves an already
/// finalised node (single_source returns ContradictoryPaths, the parallel all_pairs panics on its
/// internal unwrap, as it always did). The results of these calls are ignored; what matters is that
/// the valid calls that follow are unaffected (no state may survive in thread-locals or caches).
pub fn poison_shortest_path_state(sel: u64, every: u64) {
    use crate::model::{mk_edge, mk_node, SpecBits, G};
    if sel % every.max(1) != 0 {
        return;
    }
    let build = |n: usize| -> G {
        let mut g = G::new(SpecBits::kind(true, false, false).to_specs());
        for i in 0..n {
            g.add_node(mk_node(&format!("p{:02}", i), None));
        }
        let e = |g: &mut G, a: usize, b: usize, w: f64| {
            let _ = g.add_edge(mk_edge(&format!("p{:02}", a), &format!("p{:02}", b), w));
        };
        // p00 -> p01 (1), p00 -> p02 (5), p02 -> p01 (-10): p01 is finalised before p02 relaxes it
        e(&mut g, 0, 1, 1.0);
        e(&mut g, 0, 2, 5.0);
        e(&mut g, 2, 1, -10.0);
        for i in 3..n {
            e(&mut g, i - 2, i, 1.0 + (i % 3) as f64);
            e(&mut g, i, 0, 2.0);
        }
        g
    };
    let small = build(5);
    let _ = guard(|| dijkstra::single_source(&small, true, "p00".to_string(), None, None, false, true));
    let _ = guard(|| dijkstra::single_source(&small, true, "p00".to_string(), Some("p04".to_string()), Some(100.0), true, false));
    let big = build(26);
    for threads in [2usize, 3, 5, 16] {
        let pool = crate::props::c17::pool_of(threads);
        let _ = guard(|| pool.install(|| dijkstra::all_pairs(&big, true, None, None, false, true)));
        let _ = guard(|| pool.install(|| dijkstra::all_pairs(&big, true, Some("p03".to_string()), None, false, true)));
    }
}

impl Prop for C08 {
    type Case = OptCase;
    fn id(&self) -> &'static str {
        "C08"
    }
    fn rule(&self) -> String {
        "graphs of all 8 kinds with n in 2..=10 (plus n in 21..=26 for the parallel path), positive dyadic / tie-rich weights, mixed magnitudes ((k+1) * 2^-70 next to k/4: tiny weights are absorbed by sums; keys and distances only are compared in that class) or unweighted, weighted and hop-count mode. For every source the unrestricted all-paths answer U is the reference and the relations R1-R7 of DESIGN.md are checked: all_pairs == multi_source(all nodes) == single_source per node; target t (all nodes when n <= 5, else 3 sampled) x all 4 (first_only, with_paths) combinations; cutoffs {0, every distinct distance, every midpoint, max+1} (<= 6 sampled when more) x all 4 combinations; target and cutoff combined; symmetry and triangle inequality; get_all_shortest_paths_involving(x) for every x against an interior filter applied to the all-pairs answer. Non-trivial = the graph has a pair with >= 2 shortest paths, some cutoff both prunes and keeps an entry, and some target is reachable and is not the source; distinct = distinct serialised case.".into()
    }
    fn assumptions(&self) -> Vec<String> {
        vec![
            "strictly positive dyadic weights (exact sums) or hop counts".into(),
            "with target and cutoff combined the expected answer is the conjunction of the two stated restrictions".into(),
        ]
    }
    fn strategy(&self, _tier: Tier) -> BoxedStrategy<OptCase> {
        fn me(n: usize) -> usize {
            n * 3
        }
        let small = graph_strategy(&ALL_KINDS, 2, 10, me, &[0, 1, 3, 3, 5, 6, 11], 4);
        let large = graph_strategy(&ALL_KINDS, 21, 26, me, &[0, 3], 3);
        (prop_oneof![40 => small, 1 => large], any::<u64>()).prop_map(|(g, sel)| OptCase { g, sel }).boxed()
    }
    fn random_cases(&self, tier: Tier) -> u32 {
        tier.pick(10_000, 150_000)
    }
    fn enumerate(&self, _tier: Tier) -> Vec<OptCase> {
        let mut v = vec![];
        for kind in [0u8, 1, 4, 5] {
            for n in 2..=3u8 {
                for wmode in [0u8, 3] {
                    if kind == 5 && n == 3 && wmode == 3 {
                        continue;
                    }
                    for g in enumerate_small(kind, n, wmode) {
                        v.push(OptCase { g, sel: 0x9e3779b97f4a7c15 });
                    }
                }
            }
        }
        v
    }
    fn check(&self, case: &OptCase) -> Outcome {
        let mut out = Outcome::new();
        DIST_ONLY.with(|d| d.set(false));
        poison_shortest_path_state(case.sel, 8);
        let ng = case.g.norm();
        let graph = ng.build();
        let n = ng.n;
        let names = &ng.names;
        let mut sel = case.sel;
        let mut next = |m: usize| -> usize {
            sel = mix(sel, 0x51);
            (sel % (m.max(1) as u64)) as usize
        };
        let (mut has_tie, mut cutoff_prunes_and_keeps, mut target_reachable) = (false, false, false);
        let modes: Vec<bool> = if ng.weighted { vec![true, false] } else { vec![false] };
        macro_rules! call {
            ($ctx:expr, $e:expr) => {{
                out.api_calls += 1;
                match guard(|| $e) {
                    Err(p) => {
                        out.fail(format!("{}/panic/{}", $ctx, panic_class(&p)), p);
                        return out;
                    }
                    Ok(Err(e)) => {
                        out.fail(format!("{}/error/{}", $ctx, kind_of(&e)), e.message.clone());
                        return out;
                    }
                    Ok(Ok(v)) => v,
                }
            }};
        }
        for weighted in modes {
            let mn = if weighted { "weighted" } else { "hops" };
            let dist_only = weighted && case.g.wmode == 11;
            DIST_ONLY.with(|d| d.set(dist_only));
            let mut full: Vec<Ans> = vec![];
            for s in 0..n {
                let u = canon(&call!(format!("single_source[{}]", mn), dijkstra::single_source(&graph, weighted, names[s].clone(), None, None, false, true)));
                if u.values().any(|x| x.1.len() >= 2) {
                    has_tie = true;
                }
                // R4 / R5 without other options
                for (fo, wp) in [(false, false), (true, true), (true, false)] {
                    let a = canon(&call!(format!("single_source[{}]", mn), dijkstra::single_source(&graph, weighted, names[s].clone(), None, None, fo, wp)));
                    let ctx = format!("single_source[{},fo={},wp={}]", mn, fo, wp);
                    if a.keys().ne(u.keys()) {
                        out.fail(format!("{}/keys_changed", ctx), format!("source {}: {:?} vs {:?}", s, a.keys().collect::<Vec<_>>(), u.keys().collect::<Vec<_>>()));
                        return out;
                    }
                    for (k, e) in &a {
                        if let Err(why) = sub_entry(&u[k], e, fo, wp) {
                            out.fail(format!("{}/{}", ctx, why), format!("source {} target {}: {:?} vs unrestricted {:?}", s, k, e, u[k]));
                            return out;
                        }
                    }
                }
                // targets
                let targets: Vec<usize> = if n <= 5 { (0..n).collect() } else { (0..3).map(|_| next(n)).collect() };
                for t in targets {
                    for (fo, wp) in [(false, true), (false, false), (true, true), (true, false)] {
                        let a = canon(&call!(format!("single_source[{},target]", mn), dijkstra::single_source(&graph, weighted, names[s].clone(), Some(names[t].clone()), None, fo, wp)));
                        let ctx = format!("single_source[{},target,fo={},wp={}]", mn, fo, wp);
                        match (u.get(&names[t]), a.get(&names[t])) {
                            (None, None) => {}
                            (Some(_), None) => {
                                out.fail(format!("{}/target_entry_missing", ctx), format!("{} -> {} is reachable", s, t));
                                return out;
                            }
                            (None, Some(_)) => {
                                out.fail(format!("{}/unreachable_target_reported", ctx), format!("{} -> {}", s, t));
                                return out;
                            }
                            (Some(_), Some(_)) => {
                                if t != s {
                                    target_reachable = true;
                                }
                            }
                        }
                        for (k, e) in &a {
                            match u.get(k) {
                                None => {
                                    out.fail(format!("{}/extra_entry", ctx), format!("source {} target {}: entry {} not in the unrestricted answer", s, t, k));
                                    return out;
                                }
                                Some(f) => {
                                    if let Err(why) = sub_entry(f, e, fo, wp) {
                                        out.fail(format!("{}/{}", ctx, why), format!("source {} target {} entry {}: {:?} vs {:?}", s, t, k, e, f));
                                        return out;
                                    }
                                }
                            }
                        }
                    }
                }
                // cutoffs
                let mut ds: Vec<f64> = u.values().map(|x| f64::from_bits(x.0)).collect();
                ds.sort_by(|a, b| a.partial_cmp(b).unwrap());
                ds.dedup();
                let mut cuts: Vec<f64> = vec![0.0];
                for i in 0..ds.len() {
                    cuts.push(ds[i]);
                    if i + 1 < ds.len() {
                        cuts.push((ds[i] + ds[i + 1]) / 2.0);
                    }
                }
                cuts.push(ds.last().copied().unwrap_or(0.0) + 1.0);
                if cuts.len() > 6 {
                    let picked: Vec<f64> = (0..6).map(|_| cuts[next(cuts.len())]).collect();
                    cuts = picked;
                }
                for c in cuts {
                    let want: Ans = u.iter().filter(|(_, v)| f64::from_bits(v.0) <= c).map(|(k, v)| (k.clone(), v.clone())).collect();
                    if !want.is_empty() && want.len() < u.len() {
                        cutoff_prunes_and_keeps = true;
                    }
                    for (fo, wp) in [(false, true), (false, false), (true, true), (true, false)] {
                        let a = canon(&call!(format!("single_source[{},cutoff]", mn), dijkstra::single_source(&graph, weighted, names[s].clone(), None, Some(c), fo, wp)));
                        let ctx = format!("single_source[{},cutoff,fo={},wp={}]", mn, fo, wp);
                        if a.keys().ne(want.keys()) {
                            let extra = a.keys().any(|k| !want.contains_key(k));
                            out.fail(
                                if extra { format!("{}/entry_beyond_cutoff", ctx) } else { format!("{}/entry_within_cutoff_missing", ctx) },
                                format!("source {} cutoff {}: got {:?} want {:?}", s, c, a.keys().collect::<Vec<_>>(), want.keys().collect::<Vec<_>>()),
                            );
                            return out;
                        }
                        for (k, e) in &a {
                            if let Err(why) = sub_entry(&want[k], e, fo, wp) {
                                out.fail(format!("{}/{}", ctx, why), format!("source {} cutoff {} entry {}: {:?} vs {:?}", s, c, k, e, want[k]));
                                return out;
                            }
                        }
                    }
                    // combined with one target
                    let t = next(n);
                    let a = canon(&call!(format!("single_source[{},target+cutoff]", mn), dijkstra::single_source(&graph, weighted, names[s].clone(), Some(names[t].clone()), Some(c), false, true)));
                    let ctx = format!("single_source[{},target+cutoff]", mn);
                    let expect_t = want.get(&names[t]);
                    if expect_t.is_some() != a.contains_key(&names[t]) {
                        out.fail(format!("{}/target_entry_presence", ctx), format!("source {} target {} cutoff {}: present={} expected={}", s, t, c, a.contains_key(&names[t]), expect_t.is_some()));
                        return out;
                    }
                    for (k, e) in &a {
                        match want.get(k) {
                            None => {
                                out.fail(format!("{}/extra_entry", ctx), format!("source {} target {} cutoff {} entry {}", s, t, c, k));
                                return out;
                            }
                            Some(f) => {
                                if let Err(why) = sub_entry(f, e, false, true) {
                                    out.fail(format!("{}/{}", ctx, why), format!("source {} target {} cutoff {} entry {}", s, t, c, k));
                                    return out;
                                }
                            }
                        }
                    }
                }
                full.push(u);
            }
            // R1: all_pairs == multi_source(all) == single_source per node, for two option sets
            for (fo, wp) in [(false, true), (false, false)] {
                let ap = call!(format!("all_pairs[{}]", mn), dijkstra::all_pairs(&graph, weighted, None, None, fo, wp));
                let ms = call!(format!("multi_source[{}]", mn), dijkstra::multi_source(&graph, weighted, names.clone(), None, None, fo, wp));
                for (name, m) in [("all_pairs", &ap), ("multi_source", &ms)] {
                    let ctx = format!("{}[{},fo={},wp={}]", name, mn, fo, wp);
                    if m.len() != n || !names.iter().all(|k| m.contains_key(k)) {
                        out.fail(format!("{}/sources/keys", ctx), format!("{} sources for {} nodes", m.len(), n));
                        return out;
                    }
                    for s in 0..n {
                        let a = canon(&m[&names[s]]);
                        if a.keys().ne(full[s].keys()) {
                            out.fail(format!("{}/ne_single_source/keys", ctx), format!("source {}", s));
                            return out;
                        }
                        for (k, e) in &a {
                            if let Err(why) = sub_entry(&full[s][k], e, fo, wp) {
                                out.fail(format!("{}/ne_single_source/{}", ctx, why), format!("source {} entry {}", s, k));
                                return out;
                            }
                        }
                    }
                }
            }
            // all_pairs with a target (sampled)
            {
                let t = next(n);
                // inside a small pool several sources share one worker, which is where state
                // leaking from one source's search into the next would show
                let pool = crate::props::c17::pool_of(2 + next(2));
                let ap = call!(format!("all_pairs[{},target]", mn), pool.install(|| dijkstra::all_pairs(&graph, weighted, Some(names[t].clone()), None, false, true)));
                let ctx = format!("all_pairs[{},target]", mn);
                for s in 0..n {
                    let Some(m) = ap.get(&names[s]) else {
                        out.fail(format!("{}/sources/keys", ctx), format!("source {} missing", s));
                        return out;
                    };
                    let a = canon(m);
                    if a.contains_key(&names[t]) != full[s].contains_key(&names[t]) {
                        out.fail(format!("{}/target_entry_presence", ctx), format!("source {} target {}", s, t));
                        return out;
                    }
                    for (k, e) in &a {
                        match full[s].get(k) {
                            None => {
                                out.fail(format!("{}/extra_entry", ctx), format!("source {} entry {}", s, k));
                                return out;
                            }
                            Some(f) => {
                                if let Err(why) = sub_entry(f, e, false, true) {
                                    out.fail(format!("{}/{}", ctx, why), format!("source {} entry {}", s, k));
                                    return out;
                                }
                            }
                        }
                    }
                }
            }
            // R6: symmetry and triangle inequality
            for a in 0..n {
                for b in 0..n {
                    let dab = dist_of(&full[a], &names[b]);
                    if !ng.directed {
                        let dba = dist_of(&full[b], &names[a]);
                        if dab.map(f64::to_bits) != dba.map(f64::to_bits) {
                            out.fail(format!("distances[{}]/undirected_symmetry", mn), format!("d({},{}) = {:?} but d({},{}) = {:?}", a, b, dab, b, a, dba));
                            return out;
                        }
                    }
                    for c in 0..n {
                        if let (Some(x), Some(y)) = (dab, dist_of(&full[b], &names[c])) {
                            match dist_of(&full[a], &names[c]) {
                                None => {
                                    out.fail(format!("distances[{}]/triangle/missing_entry", mn), format!("{}->{}->{} exists but d({},{}) is not reported", a, b, c, a, c));
                                    return out;
                                }
                                Some(z) => {
                                    if z > x + y {
                                        out.fail(format!("distances[{}]/triangle/violated", mn), format!("d({},{}) = {} > {} + {}", a, c, z, x, y));
                                        return out;
                                    }
                                }
                            }
                        }
                    }
                }
            }
            // R7: get_all_shortest_paths_involving
            for x in 0..if dist_only { 0 } else { n } {
                out.api_calls += 1;
                let got = match guard(|| dijkstra::get_all_shortest_paths_involving(&graph, names[x].clone(), weighted)) {
                    Ok(v) => v,
                    Err(p) => {
                        out.fail(format!("get_all_shortest_paths_involving[{}]/panic/{}", mn, panic_class(&p)), p);
                        return out;
                    }
                };
                let mut want: Vec<(String, String)> = vec![];
                for s in 0..n {
                    for (k, e) in &full[s] {
                        if e.1.iter().any(|p| p.len() > 2 && p[1..p.len() - 1].contains(&names[x])) {
                            want.push((names[s].clone(), k.clone()));
                        }
                    }
                }
                want.sort();
                let mut gotp: Vec<(String, String)> = vec![];
                for info in &got {
                    let Some(p) = info.paths.first() else {
                        out.fail(format!("get_all_shortest_paths_involving[{}]/entry_without_paths", mn), format!("node {}", x));
                        return out;
                    };
                    let (s, t) = (p[0].clone(), p[p.len() - 1].clone());
                    // the entry must be the all-pairs entry of (s,t)
                    let si = ng.index_of(&s);
                    let ok = si.and_then(|si| full[si].get(&t)).map_or(false, |f| {
                        let mut ps = info.paths.clone();
                        ps.sort();
                        f.0 == (info.distance + 0.0).to_bits() && f.1 == ps
                    });
                    if !ok {
                        out.fail(format!("get_all_shortest_paths_involving[{}]/entry_ne_all_pairs", mn), format!("node {}: entry {}->{}", x, s, t));
                        return out;
                    }
                    gotp.push((s, t));
                }
                gotp.sort();
                if gotp != want {
                    let missing = want.iter().any(|p| !gotp.contains(p));
                    out.fail(
                        if missing { format!("get_all_shortest_paths_involving[{}]/pair_missing", mn) } else { format!("get_all_shortest_paths_involving[{}]/extra_pair", mn) },
                        format!("node {}: got {:?} want {:?}", x, gotp, want),
                    );
                    return out;
                }
            }
        }
        DIST_ONLY.with(|d| d.set(false));
        out.class(format!("kind_{}", ng.spec().label()));
        out.class(format!("wmode_{}", case.g.wmode));
        out.class(if n <= 20 { "n<=10" } else { "n>20_parallel_path" });
        if has_tie {
            out.class("has_tie_pair");
        }
        if cutoff_prunes_and_keeps {
            out.class("cutoff_prunes_and_keeps");
        }
        out.nontrivial = has_tie && cutoff_prunes_and_keeps && target_reachable;
        out
    }
}
