//! C01 — mutations follow GraphSpecs exactly; a rejected operation changes nothing.

use crate::core::*;
use crate::engine::*;
use crate::gen;
use crate::model::*;
use proptest::strategy::BoxedStrategy;

pub struct C01;

/// canonical digest of everything observable plus the private indexes
pub fn fingerprint(g: &G) -> u64 {
    let mut s = String::new();
    for n in g.get_all_nodes() {
        s.push_str(&format!("{:?}/{:?};", n.name, n.attributes));
    }
    s.push_str(&format!("{:?}", graph_edge_multiset_a(g)));
    let mut snap = g.verif_snapshot();
    snap.nodes_map.sort();
    snap.nodes_map_rev.sort();
    snap.edges.sort_by(|a, b| a.0.cmp(&b.0));
    snap.edges_map.sort_by(|a, b| a.0.cmp(&b.0));
    for l in [&mut snap.successors, &mut snap.predecessors] {
        l.iter_mut().for_each(|x| x.1.sort());
        l.sort();
    }
    for l in [&mut snap.successors_map, &mut snap.predecessors_map] {
        l.iter_mut().for_each(|x| x.1.sort());
        l.sort();
    }
    s.push_str(&format!("{:?}", snap).replace("NaN", "nan"));
    fnv(s.as_bytes())
}

pub fn op_name(op: &Op) -> &'static str {
    match op {
        Op::AddNode(..) => "add_node",
        Op::AddNodes(..) => "add_nodes",
        Op::AddEdge(..) => "add_edge",
        Op::AddEdgeTuple(..) => "add_edge_tuple",
        Op::AddEdges(..) => "add_edges",
        Op::AddEdgeTuples(..) => "add_edge_tuples",
    }
}

pub fn compare_state(g: &G, m: &Model, ctx: &str, out: &mut Outcome) {
    out.api_calls += 3;
    let gn: Vec<String> = g.get_all_node_names().into_iter().cloned().collect();
    let mn = m.names();
    if gn != mn {
        let mut a = gn.clone();
        let mut b = mn.clone();
        a.sort();
        b.sort();
        out.fail(
            if a == b { format!("{}/node_list/order", ctx) } else { format!("{}/node_list/membership", ctx) },
            format!("graph nodes {:?} model {:?}", gn, mn),
        );
    }
    let ga: Vec<(String, Option<i32>)> = g.get_all_nodes().iter().map(|n| (n.name.clone(), n.attributes)).collect();
    if gn == mn {
        out.check(ga == m.nodes, &format!("{}/node_attributes/eq_model", ctx), || format!("graph {:?} model {:?}", ga, m.nodes));
        for (n, a) in &m.nodes {
            out.api_calls += 1;
            let r = g.get_node(n.clone()).map(|x| x.attributes);
            out.check(r == Some(*a), &format!("{}/get_node_attributes/eq_model", ctx), || format!("get_node({:?}) -> {:?} want {:?}", n, r, a));
        }
    }
    let ge = graph_edge_multiset(g);
    let me = m.edge_multiset();
    if ge != me {
        let strip = |v: &Vec<(String, String, u64)>| v.iter().map(|e| (e.0.clone(), e.1.clone())).collect::<Vec<_>>();
        out.fail(
            if strip(&ge) == strip(&me) { format!("{}/edge_multiset/weights", ctx) } else { format!("{}/edge_multiset/pairs", ctx) },
            format!("graph edges {:?} model {:?}", ge, me),
        );
    } else {
        // same pairs and weights: the stored objects must also be the ones the policies dictate
        // (a replaced edge takes the new edge's attributes, a kept one keeps its own)
        let ga = graph_edge_multiset_a(g);
        let ma = m.edge_multiset_a();
        out.check(ga == ma, &format!("{}/edge_multiset/attributes", ctx), || format!("graph edges {:?} model {:?}", ga, ma));
    }
}

/// Runs the constructor form; returns (model, graph) to continue with.
pub fn run_ctor(case: &HistCase, out: &mut Outcome) -> Option<(Model, G)> {
    set_universe(case.universe);
    reset_edge_pool();
    let spec = SpecBits::from_index(case.spec);
    let mut m = Model::new(spec);
    match &case.ctor {
        None => Some((m, G::new(spec.to_specs()))),
        Some((nodes, edges)) => {
            for (n, a) in nodes {
                m.add_node(&uname(*n), *a);
            }
            let es: Vec<(String, String, f64)> = edges.iter().map(|(u, v, w)| (uname(*u), uname(*v), weight_of(case.wmode, *w))).collect();
            let objs: Vec<_> = es.iter().map(|(u, v, w)| mk_edge(u, v, *w)).collect();
            let esa: Vec<(String, String, f64, Option<i32>)> = es.iter().zip(objs.iter()).map(|((u, v, w), e)| (u.clone(), v.clone(), *w, e.attributes)).collect();
            let mr = m.add_edges_a(&esa);
            out.api_calls += 1;
            let r = G::new_from_nodes_and_edges(
                nodes.iter().map(|(n, a)| mk_node(&uname(*n), *a)).collect(),
                objs,
                spec.to_specs(),
            );
            let gr = res_kind(&r);
            if mr != gr {
                out.fail(format!("new_from_nodes_and_edges/outcome/model_{}_graph_{}", mr, gr), format!("constructor returned {} but the specs dictate {}", gr, mr));
                return None;
            }
            match r {
                Ok(g) => {
                    compare_state(&g, &m, "new_from_nodes_and_edges", out);
                    Some((m, g))
                }
                Err(_) => {
                    out.class("ctor_err");
                    let ev = m.ev.clone();
                    let mut m2 = Model::new(spec);
                    m2.ev = ev;
                    Some((m2, G::new(spec.to_specs())))
                }
            }
        }
    }
}

pub fn classify(case: &HistCase, m: &Model, out: &mut Outcome) {
    let s = SpecBits::from_index(case.spec);
    out.class(format!("kind_{}", s.label()));
    out.class(format!("dedupe_{}", ["Error", "KeepFirst", "KeepLast"][s.dedupe as usize]));
    out.class(format!("wmode_{}", case.wmode));
    let ev = &m.ev;
    for (k, v) in [
        ("ev_self_loop_policy", ev.self_loop_policy),
        ("ev_missing_node", ev.missing_node),
        ("ev_duplicate", ev.duplicate),
        ("ev_duplicate_reversed_undirected", ev.duplicate_reversed_undirected),
        ("ev_node_readd", ev.node_readd),
        ("ev_batch_fail", ev.batch_fail),
        ("ev_dup_lighter", ev.dup_lighter),
        ("ev_dup_heavier", ev.dup_heavier),
        ("ev_created_nodes", ev.created_nodes),
    ] {
        if v > 0 {
            out.class(k);
        }
    }
    let names = m.names();
    let mut sorted = names.clone();
    sorted.sort();
    if names != sorted {
        out.class("name_order_differs_from_insertion_order");
    }
    if case.ctor.is_some() {
        out.class("ctor_form");
    }
    if case.universe > 6 {
        out.class("big_history");
        let maxdeg = m.nodes.iter().map(|(x, _)| m.edges.iter().filter(|e| e.u == *x || e.v == *x).count()).max().unwrap_or(0);
        if maxdeg > 32 {
            out.class("node_with_more_than_32_incident_edges");
        }
    }
}

impl Prop for C01 {
    type Case = HistCase;
    fn id(&self) -> &'static str {
        "C01"
    }
    fn rule(&self) -> String {
        "exhaustive block: all 96 GraphSpecs x all op sequences of length <= 3 over a 6-op alphabet; random block: histories of <= 24 (quick) / 60 (thorough) add_node/add_nodes/add_edge/add_edge_tuple/add_edges/add_edge_tuples calls (optionally new_from_nodes_and_edges first) over the universe [b,a,d,c,ab,''] with a uniformly drawn spec index. Each call is compared with a reference model (outcome kind, ordered node list, node attributes, edge multiset including each stored edge's attributes - two edge objects in three carry a tag unique within the history, so a replaced edge is told from a kept one even when the weights are equal; full fingerprint unchanged after an error). Non-trivial = the history stored >= 1 edge and hit >= 1 policy event (self-loop policy, missing endpoint, duplicate pair, node re-add, failing batch element); distinct = distinct serialised history.".into()
    }
    fn assumptions(&self) -> Vec<String> {
        vec!["node names are Strings, attributes i32; other T/A are not exercised".into(), "the reference model in harness/src/model.rs encodes the C01 statement".into()]
    }
    fn enumerate(&self, _tier: Tier) -> Vec<HistCase> {
        let mut v = gen::enumerate_histories(1);
        v.extend(gen::enumerate_histories(0));
        for huge in [1u8, 2] {
            v.push(HistCase { universe: 6, spec: 0, wmode: 1, ctor: None, ops: vec![], huge });
        }
        // histories on the huge graph: both directions x single/multi x the three duplicate
        // policies (the remaining policy bits vary with the index), one scripted history each
        for k in 0..12u8 {
            let (directed, multi, dedupe) = (k & 1, (k >> 1) & 1, (k >> 2) % 3);
            let rest = (k as u16 * 7 + 3) % 8; // loops / missing / loop strategy bits
            let spec = directed | multi << 1 | ((rest & 1) as u8) << 2 | ((dedupe + 3 * ((rest >> 1) & 1) as u8 + 6 * ((rest >> 2) & 1) as u8) << 3);
            v.push(HistCase { universe: 8, spec, wmode: 1, ctor: None, ops: crate::huge::huge_ops(0xC0FFEE + k as u64), huge: 1 });
            // the same policies on a universal hub whose edges arrived in four different orders
            for star in 4..=7u8 {
                v.push(HistCase { universe: 8, spec, wmode: 1, ctor: None, ops: crate::huge::huge_ops(0xBEEF + k as u64 * 8 + star as u64), huge: star });
            }
            // ... and on the complete graph of 1 100 nodes (undirected: 604 000 edges)
            if directed == 0 {
                v.push(HistCase { universe: 8, spec, wmode: 1, ctor: None, ops: crate::huge::huge_ops(0xD0D0 + k as u64), huge: 8 });
            }
        }
        // one batch of thousands of edges with a failing element in the middle
        for spec in 0..96u8 {
            v.push(HistCase { universe: spec % 4, spec, wmode: 1, ctor: None, ops: vec![Op::AddNode(0, None)], huge: 3 });
        }
        v
    }
    fn strategy(&self, tier: Tier) -> BoxedStrategy<HistCase> {
        use proptest::prelude::*;
        prop_oneof![60 => gen::hist(tier.pick(24, 60), &[0, 0, 1, 2]), 1 => gen::hist_big(&[0, 1, 2])].boxed()
    }
    fn extra_evidence(&self, root: &std::path::Path) -> serde_json::Value {
        crate::engine::fuzz_stats(root, "graph_history")
    }
    fn random_cases(&self, tier: Tier) -> u32 {
        tier.pick(200_000, 2_000_000)
    }
    fn check(&self, case: &HistCase) -> Outcome {
        if case.huge > 0 && !case.ops.is_empty() {
            // a history on the huge graph (hubs with thousands of neighbours)
            let mut out = Outcome::new();
            crate::huge::history(case, crate::huge::Aspect::Mutations, &mut out);
            out.class("huge_graph_66003_nodes");
            out.nontrivial = out.failures.is_empty() && !out.classes.iter().any(|c| c == "diverged_from_model");
            return out;
        }
        if case.huge > 0 {
            // the fixed huge-graph cases (more than 2^16 nodes), sampled reads and linear oracles
            let mut out = Outcome::new();
            let gc = &crate::huge::huge_cases()[(case.huge as usize - 1) % 2];
            let ng = gc.norm();
            let mut g = ng.build();
            crate::huge::core_mutations(&mut g, &ng, &mut out);
            if out.failures.is_empty() {
                // the reads still describe the graph after the mutations (sampled)
                let mut ng2 = ng.clone();
                let n = ng2.n;
                if !ng2.edges.iter().any(|(i, j, _)| (*i == n - 1 && *j == n - 300) || (!ng2.directed && *i == n - 300 && *j == n - 1)) {
                    ng2.edges.push((n - 1, n - 300, 2.5));
                }
                let p = 65_537usize.min(n - 1);
                let mut o2 = Outcome::new();
                crate::huge::core_reads(&g, &ng2, &mut o2);
                out.api_calls += o2.api_calls;
                for f in o2.failures {
                    // (the re-added node carries the new attribute)
                    if f.sig.starts_with("get_node/eq_model") && f.msg.contains(&format!("position {}", p)) {
                        continue;
                    }
                    out.fail(format!("after_mutations/{}", f.sig), f.msg);
                }
            }
            out.class("huge_graph_66003_nodes");
            out.nontrivial = true;
            return out;
        }
        let mut out = Outcome::new();
        let Some((mut m, mut g)) = run_ctor(case, &mut out) else {
            return out;
        };
        for op in &case.ops {
            let before = fingerprint(&g);
            let (mr, gr) = apply(op, case.wmode, &mut m, &mut g);
            out.api_calls += 1;
            let name = op_name(op);
            if mr != gr {
                out.fail(format!("{}/outcome/model_{}_graph_{}", name, mr, gr), format!("{:?} returned {} but the specs dictate {}", op, gr, mr));
            }
            compare_state(&g, &m, name, &mut out);
            if gr != "Ok" && matches!(op, Op::AddEdge(..) | Op::AddEdgeTuple(..)) {
                out.check(fingerprint(&g) == before, &format!("{}/error_leaves_graph_unchanged/fingerprint", name), || {
                    format!("{:?} returned {} but changed the graph", op, gr)
                });
            }
            if !out.failures.is_empty() {
                break;
            }
        }
        classify(case, &m, &mut out);
        out.nontrivial = m.ev.accepted_edges >= 1 && m.ev.policy_events() >= 1;
        out
    }
}
