//! C04 — Dijkstra returns exactly the shortest distances and shortest paths.

use crate::core::*;
use crate::engine::*;
use crate::graphcase::*;
use crate::oracle::*;
use graphrs::algorithms::shortest_path::{dijkstra, ShortestPathInfo};
use proptest::prelude::*;
use proptest::strategy::BoxedStrategy;
use serde::{Deserialize, Serialize};
use std::collections::{BTreeSet, HashMap};

#[derive(Clone, Debug, Serialize, Deserialize)]
pub struct SpCase {
    pub g: GraphCase,
    /// bit i set = node i is a source of the multi_source call
    pub sources: u32,
}

pub struct C04;

thread_local! {
    /// 301 isolated nodes: a search from the last one touches node index 300 only
    static FILLER: crate::model::G = {
        let mut g = crate::model::G::new(crate::model::SpecBits::kind(true, false, false).to_specs());
        for i in 0..=300 {
            g.add_node(crate::model::mk_node(&format!("f{:03}", i), None));
        }
        g
    };
}

pub fn to_idx(ng: &NormGraph, p: &[String]) -> Option<Vec<usize>> {
    p.iter().map(|x| ng.index_of(x)).collect()
}

/// Checks one single-source answer against the oracle. `ctx` = api name for signatures.
#[allow(clippy::too_many_arguments)]
pub fn check_answer(
    ng: &NormGraph,
    w: &[Vec<f64>],
    dist_row: &[f64],
    exact_paths: Option<&Vec<Vec<Vec<usize>>>>,
    sigma: Option<&[f64]>,
    s: usize,
    ans: &HashMap<String, ShortestPathInfo<String>>,
    first_only: bool,
    with_paths: bool,
    positive: bool,
    ctx: &str,
    out: &mut Outcome,
) {
    let n = ng.n;
    let want_keys: BTreeSet<usize> = (0..n).filter(|t| dist_row[*t] < INF).collect();
    let mut got_keys = BTreeSet::new();
    for k in ans.keys() {
        match ng.index_of(k) {
            Some(i) => {
                got_keys.insert(i);
            }
            None => out.fail(format!("{}/keys/foreign_name", ctx), format!("key {:?}", k)),
        }
    }
    if got_keys != want_keys {
        let missing: Vec<_> = want_keys.difference(&got_keys).collect();
        out.fail(
            if missing.is_empty() { format!("{}/keys/unreachable_reported", ctx) } else { format!("{}/keys/reachable_missing", ctx) },
            format!("source {} reported {:?} reachable {:?}", s, got_keys, want_keys),
        );
        return;
    }
    for (k, info) in ans {
        let t = ng.index_of(k).unwrap();
        if info.distance.to_bits() != dist_row[t].to_bits() && !(info.distance == 0.0 && dist_row[t] == 0.0) {
            out.fail(
                if info.distance > dist_row[t] { format!("{}/distance/too_long", ctx) } else { format!("{}/distance/too_short", ctx) },
                format!("d({},{}) = {} but the shortest path length is {}", s, t, info.distance, dist_row[t]),
            );
            continue;
        }
        if !with_paths {
            out.check(info.paths.is_empty(), &format!("{}/with_paths_false/paths_not_empty", ctx), || format!("{} paths", info.paths.len()));
            continue;
        }
        let mut idx_paths: Vec<Vec<usize>> = vec![];
        for p in &info.paths {
            let Some(ip) = to_idx(ng, p) else {
                out.fail(format!("{}/path/foreign_name", ctx), format!("{:?}", p));
                continue;
            };
            let ok_ends = ip.first() == Some(&s) && ip.last() == Some(&t);
            out.check(ok_ends, &format!("{}/path/endpoints", ctx), || format!("path {:?} for {}->{}", ip, s, t));
            let mut len = 0.0;
            let mut valid = true;
            for h in ip.windows(2) {
                if w[h[0]][h[1]] == INF {
                    valid = false;
                    break;
                }
                len += w[h[0]][h[1]];
            }
            if !valid {
                out.fail(format!("{}/path/hop_is_not_an_edge", ctx), format!("path {:?}", ip));
            } else if ok_ends {
                out.check(len == info.distance, &format!("{}/path/weight_ne_distance", ctx), || {
                    format!("path {:?} weighs {} but distance is {}", ip, len, info.distance)
                });
            }
            idx_paths.push(ip);
        }
        if first_only {
            out.check(idx_paths.len() == 1, &format!("{}/first_only/path_count", ctx), || format!("{} paths for {}->{}", idx_paths.len(), s, t));
        }
        if positive {
            let set: BTreeSet<&Vec<usize>> = idx_paths.iter().collect();
            out.check(set.len() == idx_paths.len(), &format!("{}/paths/duplicates", ctx), || format!("{:?}", idx_paths));
            if let Some(exact) = exact_paths {
                let want: BTreeSet<&Vec<usize>> = exact[t].iter().collect();
                if first_only {
                    out.check(set.is_subset(&want), &format!("{}/first_only/not_a_shortest_path", ctx), || format!("{:?} not in {:?}", set, want));
                } else if set != want {
                    let missing = want.difference(&set).count();
                    out.fail(
                        if missing > 0 { format!("{}/paths/shortest_path_missing", ctx) } else { format!("{}/paths/extra_path", ctx) },
                        format!("{}->{}: got {:?} want {:?}", s, t, set, want),
                    );
                }
            } else if let Some(sig) = sigma {
                if !first_only {
                    out.check(set.len() as f64 == sig[t], &format!("{}/paths/count_ne_sigma", ctx), || {
                        format!("{}->{}: {} distinct valid paths, sigma = {}", s, t, set.len(), sig[t])
                    });
                }
            }
        }
    }
}

pub fn max_edges_small(n: usize) -> usize {
    (n * 3).max(2)
}
pub fn max_edges_large(n: usize) -> usize {
    n * 3
}

impl Prop for C04 {
    type Case = SpCase;
    fn id(&self) -> &'static str {
        "C04"
    }
    fn rule(&self) -> String {
        "graphs of all 8 kinds built by construction: n in 0..=9 (oracle: enumeration of all simple paths with pruning), n in 10..=20 and n in 21..=34 (oracle: Floyd-Warshall + path counts on the shortest-path DAG; takes the parallel code path), shape catalogue mixed in, shuffled insertion order; weight modes unweighted / positive dyadic / tiny dyadic (2^-40 scale) / large dyadic (2^30 scale) / tie-rich {1,2} / non-negative with zeros (distances and path validity only) / non-dyadic floats (distances bit-equal to a same-fold Bellman-Ford, path validity). Calls: single_source from every source with (first_only,with_paths) in {(F,T),(T,T),(F,F)}, in weighted and hop-count mode, multi_source on a generated source subset, all_pairs, and all_pairs with one generated target (inside a pool of 2-4 threads when n > 20). Non-trivial = some pair has >= 2 shortest paths, or some pair is unreachable, or parallel edges of different weight exist; distinct = distinct serialised case. Exhaustive block: all graphs on <= 3 nodes of the 4 single-edge kinds. Name-type independence: for every graph of <= 12 nodes and one in eight up to 64 (34 for path-returning calls) the same calls are repeated with a user-defined node-name type (lossy Display, heavily colliding Hash, Ord unrelated to insertion order) and must give the same order-independent results as with String names (floats within 1e-9). Exhaustive block additions: the 66 003-node graph (distances from three sources against a heap Dijkstra on the edge list) and complete graphs of 300 / 520 nodes with position-law weights ((i-j)^2 and three relatives: hundreds of successive strict improvements of one node). Round 9: weight mode of neighbouring doubles (1, 1 + 2^-51, 1 + 2^-50; exact oracles while every distance is below 4, same-fold Bellman-Ford otherwise): routes whose lengths differ by one ulp. Recurrence protocol (one case in 32 with P in {255, 256}, one in 512 with P in {65535, 65536}, graphs of 2..=40 nodes): a search from source a, then exactly P - 1 searches from an isolated node of another graph (node index 300 only), then a search from source c on the same thread, whose answer is checked against the oracle like any other.".into()
    }
    fn assumptions(&self) -> Vec<String> {
        vec!["weights are non-negative; completeness of the path set is only asserted for strictly positive dyadic weights (exact sums)".into(), "the oracle library harness/src/oracle.rs".into()]
    }
    fn enumerate(&self, _tier: Tier) -> Vec<SpCase> {
        let mut v = vec![];
        for kind in [0u8, 1, 4, 5] {
            for n in 0..=3u8 {
                for wmode in [0u8, 3] {
                    if kind == 5 && n == 3 && wmode == 3 {
                        continue;
                    }
                    for g in enumerate_small(kind, n, wmode) {
                        v.push(SpCase { g, sources: 0b101 });
                    }
                }
            }
        }
        for g in crate::huge::huge_cases() {
            v.push(SpCase { g, sources: 1 });
        }
        // layered graphs of 24..=34 nodes: 3^7 .. 3^10 equally short paths between the ends
        for n in [24u8, 27, 30, 33, 34] {
            for kind in [0u8, 1] {
                v.push(SpCase { g: GraphCase { kind, n, perm: n as u32, shape: 9, edges: vec![], wmode: 0, big_n: 0, big_seed: 0 }, sources: 0b1001 });
            }
        }
        // complete graphs of 300 and 520 nodes whose weights follow a law of the positions: a node
        // is strictly improved by hundreds of predecessors in turn (decrease-key counts far beyond
        // anything random weights produce: about ln(degree) there)
        for (n, family) in [(300u32, 0u64), (300, 3), (520, 0), (300, 1), (300, 2)] {
            for kind in [0u8, 1] {
                v.push(SpCase { g: GraphCase { kind, n: 0, perm: 0, shape: 4, edges: vec![], wmode: 1, big_n: n, big_seed: family }, sources: 1 });
            }
        }
        v
    }
    fn strategy(&self, _tier: Tier) -> BoxedStrategy<SpCase> {
        let small = graph_strategy(&ALL_KINDS, 0, 9, max_edges_small, &[0, 1, 1, 3, 3, 2, 4, 5, 6, 15], 4);
        let mid = graph_strategy(&ALL_KINDS, 10, 20, max_edges_large, &[0, 1, 3, 4, 5, 6, 15], 3);
        let large = graph_strategy(&ALL_KINDS, 21, 34, max_edges_large, &[0, 1, 3, 4, 5, 6], 3);
        let boundary = boundary_graph_strategy(&ALL_KINDS, max_edges_large, &[0, 1, 3], 3, 255).prop_map(|g| tame_path_counts(g, 34));
        (prop_oneof![1500 => small, 100 => mid, 50 => large, 1 => boundary], any::<u32>()).prop_map(|(g, sources)| SpCase { g, sources }).boxed()
    }
    fn random_cases(&self, tier: Tier) -> u32 {
        tier.pick(100_000, 1_000_000)
    }
    fn check(&self, case: &SpCase) -> Outcome {
        if case.g.big_n > 0 && case.g.shape == 4 {
            // dense graphs with structured weights: distances and every shortest path (they are
            // unique or few here) from the first, a middle and the last node against a heap Dijkstra
            let mut out = Outcome::new();
            let ng = case.g.norm();
            let g = ng.build();
            crate::huge::distances_opt(&g, &ng, "single_source", false, &mut out);
            out.class("dense_structured_weights_300_to_520_nodes");
            out.nontrivial = true;
            return out;
        }
        if case.g.big_n > 60_000 {
            // the fixed huge-graph cases (more than 2^16 nodes), sampled queries and linear oracles
            let mut out = Outcome::new();
            let ng = case.g.norm();
            let g = ng.build();
            crate::huge::distances(&g, &ng, "single_source", &mut out);
            out.class("huge_graph_66003_nodes");
            out.nontrivial = true;
            return out;
        }
        let mut out = Outcome::new();
        crate::props::c08::poison_shortest_path_state(case.sources as u64, 64);
        let ng = case.g.norm();
        let graph = ng.build();
        let n = ng.n;
        let small = n <= 10;
        let mut nontrivial = false;
        let modes: Vec<bool> = if ng.weighted { vec![true, false] } else { vec![false] };
        for weighted in modes {
            let w = weight_matrix(&ng, weighted);
            let positive = !weighted || matches!(case.g.wmode, 1 | 3 | 5 | 6 | 15);
            let d = floyd(&w);
            // neighbouring doubles (mode 15): exact iff every distance is below 4 (oracle::ulp_exact)
            let exact_arith = !weighted || !(matches!(case.g.wmode, 4 | 7) || (case.g.wmode == 15 && !crate::oracle::ulp_exact(&d)));
            if weighted && case.g.wmode == 15 && exact_arith {
                out.class("wmode_15_routes_one_ulp_apart_possible");
            }
            let mname = if weighted { "weighted" } else { "hops" };
            let mut all: Vec<HashMap<String, ShortestPathInfo<String>>> = vec![];
            let sources: Vec<usize> = if n > 40 { vec![0, n / 2, n - 1, (case.sources as usize) % n] } else { (0..n).collect() };
            for s in sources {
                let dist_row: Vec<f64> = if exact_arith { d[s].clone() } else { bellman_ford(&w, s) };
                let brute = if small && positive && exact_arith { Some(brute_shortest_paths(&w, s).1) } else { None };
                let sigma = if !small && positive && exact_arith { Some(sigma_from(&w, &d, s)) } else { None };
                if let Some(b) = &brute {
                    if b.iter().any(|p| p.len() >= 2) {
                        nontrivial = true;
                    }
                }
                if let Some(sg) = &sigma {
                    if sg.iter().any(|x| *x >= 2.0) {
                        nontrivial = true;
                    }
                }
                if dist_row.iter().any(|x| *x == INF) {
                    nontrivial = true;
                }
                for (fo, wp) in [(false, true), (true, true), (false, false)] {
                    out.api_calls += 1;
                    let r = guard(|| dijkstra::single_source(&graph, weighted, ng.names[s].clone(), None, None, fo, wp));
                    let ctx = format!("single_source[{},fo={},wp={}]", mname, fo, wp);
                    match r {
                        Err(p) => out.fail(format!("{}/panic/{}", ctx, panic_class(&p)), p),
                        Ok(Err(e)) => out.fail(format!("{}/error/{}", ctx, kind_of(&e)), format!("source {}: {}", s, e.message)),
                        Ok(Ok(ans)) => {
                            check_answer(&ng, &w, &dist_row, brute.as_ref(), sigma.as_deref(), s, &ans, fo, wp, positive && exact_arith, &ctx, &mut out);
                            if !fo && wp {
                                all.push(ans);
                            }
                        }
                    }
                }
                if !out.failures.is_empty() {
                    return out;
                }
            }
            // multi_source on a subset, all_pairs: every entry must equal the single-source answer
            let srcs: Vec<usize> = (0..n).filter(|i| case.sources >> (i % 32) & 1 == 1).collect();
            out.api_calls += 2;
            let ms = guard(|| dijkstra::multi_source(&graph, weighted, srcs.iter().map(|i| ng.names[*i].clone()).collect(), None, None, false, true));
            let ap = guard(|| dijkstra::all_pairs(&graph, weighted, None, None, false, true));
            for (name, r, want_srcs) in [("multi_source", ms, srcs.clone()), ("all_pairs", ap, (0..n).collect::<Vec<_>>())] {
                let ctx = format!("{}[{}]", name, mname);
                match r {
                    Err(p) => out.fail(format!("{}/panic/{}", ctx, panic_class(&p)), p),
                    Ok(Err(e)) => out.fail(format!("{}/error/{}", ctx, kind_of(&e)), e.message.clone()),
                    Ok(Ok(m)) => {
                        let got: BTreeSet<usize> = m.keys().filter_map(|k| ng.index_of(k)).collect();
                        let want: BTreeSet<usize> = want_srcs.iter().copied().collect();
                        out.check(got == want && got.len() == m.len(), &format!("{}/sources/keys", ctx), || format!("got {:?} want {:?}", got, want));
                        for (k, ans) in &m {
                            let Some(s) = ng.index_of(k) else { continue };
                            let dist_row: Vec<f64> = if exact_arith { d[s].clone() } else { bellman_ford(&w, s) };
                            let brute = if small && positive && exact_arith { Some(brute_shortest_paths(&w, s).1) } else { None };
                            let sigma = if !small && positive && exact_arith { Some(sigma_from(&w, &d, s)) } else { None };
                            check_answer(&ng, &w, &dist_row, brute.as_ref(), sigma.as_deref(), s, ans, false, true, positive && exact_arith, &ctx, &mut out);
                        }
                    }
                }
            }
            let _ = all;
            // all_pairs with a target (the statement quantifies over targets): every reported entry
            // must carry the true distance, and the target is reported iff it is reachable. Large
            // graphs run inside a small pool so that several sources share one worker.
            if n > 0 && exact_arith {
                let t = (case.sources as usize) % n;
                out.api_calls += 1;
                let r = if n > 20 {
                    let pool = crate::props::c17::pool_of(2 + (case.sources as usize >> 8) % 3);
                    guard(|| pool.install(|| dijkstra::all_pairs(&graph, weighted, Some(ng.names[t].clone()), None, false, true)))
                } else {
                    guard(|| dijkstra::all_pairs(&graph, weighted, Some(ng.names[t].clone()), None, false, true))
                };
                let ctx = format!("all_pairs[{},target]", mname);
                match r {
                    Err(p) => out.fail(format!("{}/panic/{}", ctx, panic_class(&p)), p),
                    Ok(Err(e)) => out.fail(format!("{}/error/{}", ctx, kind_of(&e)), e.message.clone()),
                    Ok(Ok(m)) => {
                        for s in 0..n {
                            let Some(ans) = m.get(&ng.names[s]) else {
                                out.fail(format!("{}/sources/missing", ctx), format!("source {}", s));
                                continue;
                            };
                            let has_t = ans.contains_key(&ng.names[t]);
                            if has_t != (d[s][t] < INF) {
                                out.fail(format!("{}/target_entry/presence", ctx), format!("source {} target {}: reported {} reachable {}", s, t, has_t, d[s][t] < INF));
                            }
                            for (k, info) in ans {
                                let Some(u) = ng.index_of(k) else { continue };
                                if info.distance != d[s][u] {
                                    out.fail(format!("{}/distance/ne_oracle", ctx), format!("d({},{}) = {} but the shortest path length is {}", s, u, info.distance, d[s][u]));
                                }
                            }
                        }
                    }
                }
            }
            // Recurrence protocol: a call from source a, then exactly P - 1 calls that touch one far-away
            // node index only (an isolated node of another graph), then a call from source c on the same
            // thread, for P = 2^8 - 1, 2^8, 2^16 - 1, 2^16: per-thread scratch state that is validated by
            // a wrapping generation counter would take what the first call left behind for current.
            let sel = case.sources;
            let period: Option<usize> = if sel % 512 == 7 {
                Some([65_535usize, 65_536][(sel as usize >> 9) % 2])
            } else if sel % 32 == 3 {
                Some([255usize, 256][(sel as usize >> 9) % 2])
            } else {
                None
            };
            if let (Some(period), true, true) = (period, n >= 2 && n <= 40, out.failures.is_empty()) {
                let a = (sel as usize >> 10) % n;
                let mut c = (sel as usize >> 16) % n;
                if c == a {
                    c = (a + 1) % n;
                }
                let (fo, wp) = [(false, true), (false, false), (true, true), (true, false)][(sel as usize >> 22) % 4];
                FILLER.with(|filler| {
                    out.api_calls += period as u64 + 1;
                    let _ = guard(|| dijkstra::single_source(&graph, weighted, ng.names[a].clone(), None, None, fo, wp));
                    let z = "f300".to_string();
                    for _ in 0..period - 1 {
                        let _ = dijkstra::single_source(filler, weighted, z.clone(), None, None, fo, wp);
                    }
                    let r = guard(|| dijkstra::single_source(&graph, weighted, ng.names[c].clone(), None, None, fo, wp));
                    let ctx = format!("single_source[{},fo={},wp={}]/after_{}_calls", mname, fo, wp, if period > 256 { "2^16" } else { "2^8" });
                    match r {
                        Err(p) => out.fail(format!("{}/panic/{}", ctx, panic_class(&p)), p),
                        Ok(Err(e)) => out.fail(format!("{}/error/{}", ctx, kind_of(&e)), format!("source {}: {}", c, e.message)),
                        Ok(Ok(ans)) => {
                            let dist_row: Vec<f64> = if exact_arith { d[c].clone() } else { bellman_ford(&w, c) };
                            let brute = if small && positive && exact_arith { Some(brute_shortest_paths(&w, c).1) } else { None };
                            let sigma = if !small && positive && exact_arith { Some(sigma_from(&w, &d, c)) } else { None };
                            check_answer(&ng, &w, &dist_row, brute.as_ref(), sigma.as_deref(), c, &ans, fo, wp, positive && exact_arith, &ctx, &mut out);
                        }
                    }
                });
                out.class(if period > 256 { "recurrence_after_2^16_calls_on_one_thread" } else { "recurrence_after_2^8_calls_on_one_thread" });
            }
        }
        if ng.has_parallel() {
            nontrivial = true;
            out.class("parallel_edges");
        }
        if ng.has_loop() {
            out.class("self_loops");
        }
        out.class(format!("kind_{}", ng.spec().label()));
        out.class(format!("wmode_{}", case.g.wmode));
        out.class(if small { "n<=10" } else if n <= 20 { "n_11_to_20" } else if n <= 34 { "n>20_parallel_path" } else { "boundary_size_35_to_255" });
        if case.g.shape != 0 {
            out.class(format!("shape_{}", case.g.shape));
        }
        crate::altkey::maybe_check(&ng, crate::altkey::Group::Paths, case.g.perm as u64, &mut out);
        out.nontrivial = nontrivial && n >= 2;
        out
    }
}
