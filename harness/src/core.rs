//! Shared types: failures with stable signatures, per-case outcome, panic capture, float helpers.

use std::cell::RefCell;
use std::collections::BTreeMap;
use std::panic::{self, AssertUnwindSafe};
use std::sync::Once;

#[derive(Debug, Clone)]
pub struct Failure {
    /// stable signature `<api>/<assertion>/<class>` (the property id is added by the engine)
    pub sig: String,
    pub msg: String,
}

/// What one executed case reports back to the engine.
#[derive(Debug, Default)]
pub struct Outcome {
    pub failures: Vec<Failure>,
    /// non-trivial by the property's stated rule
    pub nontrivial: bool,
    /// classes this case belongs to (for the histogram in the evidence file)
    pub classes: Vec<String>,
    /// number of calls made into graphrs
    pub api_calls: u64,
}

impl Outcome {
    pub fn new() -> Self {
        Self::default()
    }
    pub fn fail(&mut self, sig: impl Into<String>, msg: impl Into<String>) {
        let sig = sig.into();
        // keep at most one failure per signature per case
        if self.failures.iter().any(|f| f.sig == sig) {
            return;
        }
        self.failures.push(Failure { sig, msg: msg.into() });
    }
    pub fn class(&mut self, c: impl Into<String>) {
        let c = c.into();
        if !self.classes.contains(&c) {
            self.classes.push(c);
        }
    }
    pub fn check(&mut self, cond: bool, sig: &str, msg: impl FnOnce() -> String) -> bool {
        if !cond {
            self.fail(sig, msg());
        }
        cond
    }
}

thread_local! {
    static LAST_PANIC: RefCell<Option<String>> = const { RefCell::new(None) };
}

static HOOK: Once = Once::new();

/// Installs a silent panic hook that records message and location per thread.
pub fn install_panic_hook() {
    HOOK.call_once(|| {
        panic::set_hook(Box::new(|info| {
            let msg = if let Some(s) = info.payload().downcast_ref::<&str>() {
                s.to_string()
            } else if let Some(s) = info.payload().downcast_ref::<String>() {
                s.clone()
            } else {
                "<non-string panic>".to_string()
            };
            let loc = info
                .location()
                .map(|l| format!("{}:{}", l.file(), l.line()))
                .unwrap_or_default();
            LAST_PANIC.with(|p| *p.borrow_mut() = Some(format!("{} @ {}", msg, loc)));
        }));
    });
}

/// Runs `f`, turning a panic into `Err(message @ file:line)`.
pub fn guard<R>(f: impl FnOnce() -> R) -> Result<R, String> {
    match panic::catch_unwind(AssertUnwindSafe(f)) {
        Ok(r) => Ok(r),
        Err(_) => Err(LAST_PANIC
            .with(|p| p.borrow_mut().take())
            .unwrap_or_else(|| "<panic>".to_string())),
    }
}

/// A short class for a panic message, used in signatures (file name + coarse reason, no line numbers,
/// so that unrelated edits do not change the signature).
pub fn panic_class(msg: &str) -> String {
    let reason = if msg.contains("step budget exhausted") {
        "step_budget"
    } else if msg.contains("overflow") {
        "overflow"
    } else if msg.contains("unwrap()` on a `None`") || msg.contains("Option::unwrap()") {
        "unwrap_none"
    } else if msg.contains("unwrap()` on an `Err`") || msg.contains("Result::unwrap()") {
        "unwrap_err"
    } else if msg.contains("index out of bounds") || msg.contains("out of range") {
        "index"
    } else if msg.contains("divide by zero") || msg.contains("division by zero") {
        "div_zero"
    } else if msg.contains("expect") {
        "expect"
    } else {
        "other"
    };
    let file = msg
        .rsplit(" @ ")
        .next()
        .and_then(|l| l.split(':').next())
        .map(|p| {
            let p = p.trim_end_matches(".rs");
            p.rsplit('/').take(2).collect::<Vec<_>>().into_iter().rev().collect::<Vec<_>>().join("_")
        })
        .unwrap_or_default();
    format!("{}@{}", reason, file)
}

pub fn approx(a: f64, b: f64, rel: f64, abs: f64) -> bool {
    if a == b {
        return true;
    }
    if a.is_nan() || b.is_nan() {
        return a.is_nan() && b.is_nan();
    }
    let d = (a - b).abs();
    d <= abs || d <= rel * a.abs().max(b.abs())
}

pub fn same_bits(a: f64, b: f64) -> bool {
    a.to_bits() == b.to_bits() || (a.is_nan() && b.is_nan())
}

/// Error kind of a graphrs error as a string (ErrorKind has no PartialEq).
pub fn kind_of(e: &graphrs::Error) -> String {
    format!("{:?}", e.kind)
}

pub fn res_kind<T>(r: &Result<T, graphrs::Error>) -> String {
    match r {
        Ok(_) => "Ok".to_string(),
        Err(e) => kind_of(e),
    }
}

/// FNV-1a, for deterministic fingerprints (std's hasher is randomly keyed per process).
pub fn fnv(bytes: &[u8]) -> u64 {
    let mut h: u64 = 0xcbf29ce484222325;
    for b in bytes {
        h ^= *b as u64;
        h = h.wrapping_mul(0x100000001b3);
    }
    h
}

pub fn mix(a: u64, b: u64) -> u64 {
    let mut z = a ^ b.wrapping_mul(0x9E3779B97F4A7C15).rotate_left(17);
    z = (z ^ (z >> 30)).wrapping_mul(0xBF58476D1CE4E5B9);
    z = (z ^ (z >> 27)).wrapping_mul(0x94D049BB133111EB);
    z ^ (z >> 31)
}

pub type Histogram = BTreeMap<String, u64>;
