//! C02 coherence check: every read API must describe the node list and edge multiset of the model.
//! Also the C03 traversal-index check. Both are reused on derived graphs (C15) and parsed graphs (C19).

use crate::core::*;
use crate::model::*;
use graphrs::Edge;
use std::collections::{BTreeMap, BTreeSet};
use std::sync::Arc;

/// canonical edge including its attributes: every view must return the stored edge itself
type EdgeKey = EdgeKeyA;
type EdgeKey3 = (String, String, u64);

fn set_of<'a>(it: impl Iterator<Item = &'a String>) -> BTreeSet<String> {
    it.cloned().collect()
}

/// Query names: the universe plus the absent name, or (for derived/parsed graphs) the graph's own
/// names plus the absent name.
pub fn query_names(m: &Model, universe: bool) -> Vec<String> {
    let mut q: Vec<String> = if universe { UNIVERSE.iter().map(|s| s.to_string()).collect() } else { m.names() };
    if !q.iter().any(|x| x == ABSENT) {
        q.push(ABSENT.to_string());
    }
    // a second absent name, long and of mixed character width (error messages quote names)
    q.push(absent_long(q.len()));
    q
}

pub struct CoherenceStats {
    pub calls: u64,
    pub absent_queries: u64,
    pub inverted_pairs: u64,
}

/// `deep`: also query every subset for the `*_for_nodes` family (64 subsets of the universe).
pub fn coherent(g: &G, m: &Model, q: &[String], deep: bool, out: &mut Outcome) -> CoherenceStats {
    coherent_with(g, m, q, deep, out, |a| *a)
}

/// generic over the attribute type: `attr` maps a node's attributes to the model's representation
pub fn coherent_with<A: Clone + Send + Sync>(g: &graphrs::Graph<String, A>, m: &Model, q: &[String], deep: bool, out: &mut Outcome, attr: impl Fn(&Option<A>) -> Option<i32>) -> CoherenceStats {
    let d = m.spec.directed;
    let multi = m.spec.multi;
    let names = m.names();
    let mut calls = 0u64;
    let mut absent_queries = 0u64;
    let with_attrs = !m.ignore_edge_attrs;
    let ke = |e: &Edge<String, A>| -> EdgeKey { canon_edge_a(d, &e.u, &e.v, e.weight, if with_attrs { attr(&e.attributes) } else { None }) };
    let km = |e: &MEdge| -> EdgeKey { canon_edge_a(d, &e.u, &e.v, e.w, if with_attrs { e.a } else { None }) };
    let canon_list = |_d: bool, es: &[&Arc<Edge<String, A>>]| -> Vec<EdgeKey> {
        let mut v: Vec<_> = es.iter().map(|e| ke(e)).collect();
        v.sort();
        v
    };
    let canon_model = |_d: bool, es: &[&MEdge]| -> Vec<EdgeKey> {
        let mut v: Vec<_> = es.iter().map(|e| km(e)).collect();
        v.sort();
        v
    };

    // ---- nodes
    calls += 3;
    let gnames: Vec<String> = g.get_all_node_names().into_iter().cloned().collect();
    out.check(gnames == names, "get_all_node_names/eq_model/order", || format!("graph {:?} model {:?}", gnames, names));
    out.check(g.number_of_nodes() == names.len(), "number_of_nodes/eq_model/count", || {
        format!("{} vs {}", g.number_of_nodes(), names.len())
    });
    let gnodes: Vec<(String, Option<i32>)> = g.get_all_nodes().iter().map(|n| (n.name.clone(), attr(&n.attributes))).collect();
    out.check(gnodes == m.nodes, "get_all_nodes/eq_model/attributes", || format!("graph {:?} model {:?}", gnodes, m.nodes));
    for x in q {
        calls += 2;
        let has = m.has(x);
        if !has {
            absent_queries += 1;
        }
        out.check(g.has_node(x) == has, "has_node/eq_model/membership", || format!("has_node({:?}) = {}", x, !has));
        match (g.get_node(x.clone()), m.pos(x)) {
            (Some(n), Some(i)) => {
                out.check(n.name == *x && attr(&n.attributes) == m.nodes[i].1, "get_node/eq_model/attributes", || {
                    format!("get_node({:?}) -> ({:?},{:?}) model {:?}", x, n.name, attr(&n.attributes), m.nodes[i])
                });
            }
            (None, None) => {}
            (a, b) => out.fail("get_node/eq_model/presence", format!("get_node({:?}) some={} model some={}", x, a.is_some(), b.is_some())),
        }
    }
    for i in 0..=names.len() {
        calls += 1;
        let r = g.get_node_by_index(&i).map(|n| n.name.clone());
        let want = names.get(i).cloned();
        out.check(r == want, "get_node_by_index/eq_model/position", || format!("index {} -> {:?} want {:?}", i, r, want));
    }

    // ---- all edges
    calls += 1;
    let mut all: Vec<EdgeKey> = g.get_all_edges().iter().map(|e| ke(e)).collect();
    all.sort();
    let mut want_all: Vec<EdgeKey> = m.edges.iter().map(|e| km(e)).collect();
    want_all.sort();
    if all != want_all {
        let strip = |v: &Vec<EdgeKey>| v.iter().map(|e| (e.0.clone(), e.1.clone(), e.2)).collect::<Vec<_>>();
        out.fail(if strip(&all) == strip(&want_all) { "get_all_edges/eq_model/attributes" } else { "get_all_edges/eq_model/multiset" }, format!("graph {:?} model {:?}", all, want_all));
    }

    // ---- pairwise lookups
    let mut inverted_pairs = 0;
    for u in q {
        for v in q {
            let between = m.between(u, v);
            let both = m.has(u) && m.has(v);
            if !d && both && !between.is_empty() {
                let (pu, pv) = (m.pos(u).unwrap(), m.pos(v).unwrap());
                if (u < v) != (pu < pv) && u != v {
                    inverted_pairs += 1;
                }
            }
            calls += 2;
            // get_edge
            let r = g.get_edge(u.clone(), v.clone());
            let rk = match &r {
                Ok(_) => "Ok".to_string(),
                Err(e) => kind_of(e),
            };
            if multi {
                // both WrongMethod and NodeNotFound may apply; either is accepted
                let ok = rk == "WrongMethod" || (!both && rk == "NodeNotFound");
                out.check(ok, "get_edge/kind_guard/multi", || format!("get_edge({:?},{:?}) on multi graph -> {}", u, v, rk));
            } else if !both {
                out.check(rk == "NodeNotFound", "get_edge/absent_node/kind", || format!("get_edge({:?},{:?}) -> {}", u, v, rk));
            } else if between.is_empty() {
                out.check(rk == "EdgeNotFound", "get_edge/absent_edge/kind", || {
                    format!("get_edge({:?},{:?}) -> {} but no such edge is stored", u, v, rk)
                });
            } else {
                match &r {
                    Ok(e) => {
                        let got = ke(e);
                        let want = km(between[0]);
                        if got != want {
                            out.fail(if (&got.0, &got.1, got.2) == (&want.0, &want.1, want.2) { "get_edge/eq_model/attributes" } else { "get_edge/eq_model/value" }, format!("get_edge({:?},{:?}) -> {:?} want {:?}", u, v, got, want));
                        }
                    }
                    Err(_) => out.fail(
                        if !d && (u < v) != (m.pos(u) < m.pos(v)) { "get_edge/present_edge/inverted_pair" } else { "get_edge/present_edge/kind" },
                        format!("get_edge({:?},{:?}) -> {} but the edge is stored", u, v, rk),
                    ),
                }
            }
            // get_edges
            let r = g.get_edges(u.clone(), v.clone());
            let rk = match &r {
                Ok(_) => "Ok".to_string(),
                Err(e) => kind_of(e),
            };
            if !multi {
                let ok = rk == "WrongMethod" || (!both && rk == "NodeNotFound");
                out.check(ok, "get_edges/kind_guard/single", || format!("get_edges({:?},{:?}) on single-edge graph -> {}", u, v, rk));
            } else if !both {
                out.check(rk == "NodeNotFound", "get_edges/absent_node/kind", || format!("get_edges({:?},{:?}) -> {}", u, v, rk));
            } else if between.is_empty() {
                // an empty list would be an equally truthful answer; a non-empty one is wrong
                let ok = rk == "EdgeNotFound" || matches!(&r, Ok(l) if l.is_empty());
                out.check(ok, "get_edges/absent_edge/kind", || format!("get_edges({:?},{:?}) -> {}", u, v, rk));
            } else {
                match &r {
                    Ok(l) => {
                        // insertion order
                        let got: Vec<EdgeKey> = l.iter().map(|e| ke(e)).collect();
                        let want: Vec<EdgeKey> = between.iter().map(|e| km(e)).collect();
                        if got != want {
                            let mut a = got.clone();
                            let mut b = want.clone();
                            a.sort();
                            b.sort();
                            out.fail(
                                if a == b { "get_edges/eq_model/insertion_order" } else { "get_edges/eq_model/multiset" },
                                format!("get_edges({:?},{:?}) -> {:?} want {:?}", u, v, got, want),
                            );
                        }
                    }
                    Err(_) => out.fail("get_edges/present_edge/kind", format!("get_edges({:?},{:?}) -> {} but edges are stored", u, v, rk)),
                }
            }
        }
    }

    // ---- per-node views
    for x in q {
        let has = m.has(x);
        let inc: Vec<&MEdge> = m.edges.iter().filter(|e| e.u == *x || e.v == *x).collect();
        let ins: Vec<&MEdge> = m.edges.iter().filter(|e| e.v == *x).collect();
        let outs: Vec<&MEdge> = m.edges.iter().filter(|e| e.u == *x).collect();
        calls += 3;
        // get_edges_for_node
        match g.get_edges_for_node(x.clone()) {
            Ok(l) => {
                if !has {
                    out.fail("get_edges_for_node/absent_node/kind", format!("get_edges_for_node({:?}) -> Ok", x));
                } else {
                    let got = canon_list(d, &l);
                    let want = canon_model(d, &inc);
                    if got != want {
                        // classify: directed self-loops listed twice, nothing else wrong
                        let mut dedup_loops = got.clone();
                        let mut seen_extra = false;
                        let loops_in_model = want.iter().filter(|e| e.0 == e.1).count();
                        let loops_in_got = got.iter().filter(|e| e.0 == e.1).count();
                        if d && loops_in_got == 2 * loops_in_model && loops_in_model > 0 {
                            // remove one copy of each loop
                            let mut removed: BTreeMap<EdgeKey, usize> = BTreeMap::new();
                            dedup_loops = vec![];
                            for e in &got {
                                if e.0 == e.1 {
                                    let c = removed.entry(e.clone()).or_default();
                                    *c += 1;
                                    if *c % 2 == 0 {
                                        continue;
                                    }
                                }
                                dedup_loops.push(e.clone());
                            }
                            seen_extra = dedup_loops == want;
                        }
                        out.fail(
                            if seen_extra { "get_edges_for_node/eq_model/directed_self_loop_listed_twice" } else { "get_edges_for_node/eq_model/multiset" },
                            format!("get_edges_for_node({:?}) -> {:?} want {:?}", x, got, want),
                        );
                    }
                }
            }
            Err(e) => {
                out.check(!has && kind_of(&e) == "NodeNotFound", "get_edges_for_node/present_node/kind", || {
                    format!("get_edges_for_node({:?}) -> {}", x, kind_of(&e))
                });
            }
        }
        // in / out edges
        for (name, r, want) in [
            ("get_in_edges_for_node", g.get_in_edges_for_node(x.clone()), &ins),
            ("get_out_edges_for_node", g.get_out_edges_for_node(x.clone()), &outs),
        ] {
            match r {
                Ok(l) => {
                    if !d {
                        out.fail(format!("{}/kind_guard/undirected", name), format!("{}({:?}) -> Ok on undirected graph", name, x));
                    } else if !has {
                        out.fail(format!("{}/absent_node/kind", name), format!("{}({:?}) -> Ok", name, x));
                    } else {
                        let got = canon_list(d, &l);
                        let w = canon_model(d, want);
                        out.check(got == w, &format!("{}/eq_model/multiset", name), || format!("{}({:?}) -> {:?} want {:?}", name, x, got, w));
                    }
                }
                Err(e) => {
                    let k = kind_of(&e);
                    let ok = if !d { k == "WrongMethod" || (!has && k == "NodeNotFound") } else { !has && k == "NodeNotFound" };
                    out.check(ok, &format!("{}/error/kind", name), || format!("{}({:?}) -> {}", name, x, k));
                }
            }
        }
        // successor / predecessor / neighbour nodes
        let succ: BTreeSet<String> = if d {
            set_of(m.edges.iter().filter(|e| e.u == *x).map(|e| &e.v))
        } else {
            BTreeSet::new()
        };
        let pred: BTreeSet<String> = if d {
            set_of(m.edges.iter().filter(|e| e.v == *x).map(|e| &e.u))
        } else {
            BTreeSet::new()
        };
        let nbr: BTreeSet<String> = m
            .edges
            .iter()
            .filter(|e| e.u == *x || e.v == *x)
            .map(|e| if e.u == *x { e.v.clone() } else { e.u.clone() })
            .collect();
        calls += 5;
        let checks: Vec<(&str, Result<Vec<String>, graphrs::Error>, &BTreeSet<String>, bool)> = vec![
            ("get_successor_nodes", g.get_successor_nodes(x.clone()).map(|v| v.iter().map(|n| n.name.clone()).collect()), &succ, true),
            ("get_successor_node_names", g.get_successor_node_names(x.clone()).map(|v| v.into_iter().cloned().collect()), &succ, true),
            ("get_predecessor_nodes", g.get_predecessor_nodes(x.clone()).map(|v| v.iter().map(|n| n.name.clone()).collect()), &pred, true),
            ("get_predecessor_node_names", g.get_predecessor_node_names(x.clone()).map(|v| v.into_iter().cloned().collect()), &pred, true),
            ("get_neighbor_nodes", g.get_neighbor_nodes(x.clone()).map(|v| v.iter().map(|n| n.name.clone()).collect()), &nbr, false),
        ];
        for (name, r, want, directed_only) in checks {
            match r {
                Ok(l) => {
                    if directed_only && !d {
                        out.fail(format!("{}/kind_guard/undirected", name), format!("{}({:?}) -> Ok on undirected graph", name, x));
                    } else if !has {
                        out.fail(format!("{}/absent_node/kind", name), format!("{}({:?}) -> Ok", name, x));
                    } else {
                        let got: BTreeSet<String> = l.iter().cloned().collect();
                        out.check(got.len() == l.len(), &format!("{}/eq_model/duplicates", name), || format!("{}({:?}) -> {:?}", name, x, l));
                        out.check(&got == want, &format!("{}/eq_model/set", name), || format!("{}({:?}) -> {:?} want {:?}", name, x, got, want));
                    }
                }
                Err(e) => {
                    let k = kind_of(&e);
                    let ok = if directed_only && !d { k == "WrongMethod" || (!has && k == "NodeNotFound") } else { !has && k == "NodeNotFound" };
                    out.check(ok, &format!("{}/error/kind", name), || format!("{}({:?}) -> {}", name, x, k));
                }
            }
        }
        if has {
            calls += 2;
            let r: Vec<String> = g.get_successors_or_neighbors(x.clone()).iter().map(|n| n.name.clone()).collect();
            let got: BTreeSet<String> = r.iter().cloned().collect();
            let want = if d { &succ } else { &nbr };
            out.check(got.len() == r.len() && &got == want, "get_successors_or_neighbors/eq_model/set", || {
                format!("get_successors_or_neighbors({:?}) -> {:?} want {:?}", x, r, want)
            });
            // breadth-first reachability
            let bfs = g.breadth_first_search(x);
            let mut reach: BTreeSet<String> = BTreeSet::new();
            let mut stack = vec![x.clone()];
            while let Some(y) = stack.pop() {
                if !reach.insert(y.clone()) {
                    continue;
                }
                for e in &m.edges {
                    if e.u == y {
                        stack.push(e.v.clone());
                    }
                    if !d && e.v == y {
                        stack.push(e.u.clone());
                    }
                }
            }
            let got: BTreeSet<String> = bfs.iter().cloned().collect();
            out.check(bfs.first() == Some(x), "breadth_first_search/start/first", || format!("bfs({:?}) -> {:?}", x, bfs));
            out.check(got.len() == bfs.len(), "breadth_first_search/once/duplicates", || format!("bfs({:?}) -> {:?}", x, bfs));
            out.check(got == reach, "breadth_first_search/eq_closure/set", || format!("bfs({:?}) -> {:?} want {:?}", x, got, reach));
        }
    }

    // ---- successor / predecessor maps
    calls += 2;
    let sm = g.get_successors_map();
    for k in sm.keys() {
        out.check(m.has(k), "get_successors_map/keys/foreign", || format!("key {:?} is not a node", k));
    }
    for x in &names {
        let want: BTreeSet<String> = if d {
            set_of(m.edges.iter().filter(|e| e.u == *x).map(|e| &e.v))
        } else {
            m.edges.iter().filter(|e| e.u == *x || e.v == *x).map(|e| if e.u == *x { e.v.clone() } else { e.u.clone() }).collect()
        };
        let got: BTreeSet<String> = sm.get(x).map(|s| s.iter().cloned().collect()).unwrap_or_default();
        out.check(got == want, "get_successors_map/eq_model/set", || format!("successors[{:?}] = {:?} want {:?}", x, got, want));
    }
    if d {
        let pm = g.get_predecessors_map();
        for k in pm.keys() {
            out.check(m.has(k), "get_predecessors_map/keys/foreign", || format!("key {:?} is not a node", k));
        }
        for x in &names {
            let want: BTreeSet<String> = set_of(m.edges.iter().filter(|e| e.v == *x).map(|e| &e.u));
            let got: BTreeSet<String> = pm.get(x).map(|s| s.iter().cloned().collect()).unwrap_or_default();
            out.check(got == want, "get_predecessors_map/eq_model/set", || format!("predecessors[{:?}] = {:?} want {:?}", x, got, want));
        }
    }

    // ---- node-set queries
    let subsets: Vec<Vec<String>> = if deep {
        let k = q.len().min(7);
        (0..(1u32 << k)).map(|mask| (0..k).filter(|i| mask >> i & 1 == 1).map(|i| q[i].clone()).collect()).collect()
    } else {
        // a handful: empty, each singleton, all existing, all + absent
        let mut v: Vec<Vec<String>> = vec![vec![]];
        for x in q {
            v.push(vec![x.clone()]);
        }
        v.push(names.clone());
        v.push(q.to_vec());
        if names.len() >= 2 {
            v.push(vec![names[0].clone(), names[names.len() - 1].clone(), names[0].clone()]);
        }
        v
    };
    for s in &subsets {
        let all_present = s.iter().all(|x| m.has(x));
        if !all_present {
            absent_queries += 1;
        }
        let sset: BTreeSet<&String> = s.iter().collect();
        calls += 4;
        out.check(g.has_nodes(s) == all_present, "has_nodes/eq_model/membership", || format!("has_nodes({:?}) = {}", s, !all_present));
        let any: Vec<&MEdge> = m.edges.iter().filter(|e| sset.contains(&e.u) || sset.contains(&e.v)).collect();
        let ins: Vec<&MEdge> = m.edges.iter().filter(|e| sset.contains(&e.v)).collect();
        let outs: Vec<&MEdge> = m.edges.iter().filter(|e| sset.contains(&e.u)).collect();
        for (name, r, want, directed_only) in [
            ("get_edges_for_nodes", g.get_edges_for_nodes(s), &any, false),
            ("get_in_edges_for_nodes", g.get_in_edges_for_nodes(s), &ins, true),
            ("get_out_edges_for_nodes", g.get_out_edges_for_nodes(s), &outs, true),
        ] {
            match r {
                Ok(l) => {
                    if directed_only && !d {
                        out.fail(format!("{}/kind_guard/undirected", name), format!("{}({:?}) -> Ok on undirected graph", name, s));
                    } else if !all_present {
                        out.fail(format!("{}/absent_node/kind", name), format!("{}({:?}) -> Ok", name, s));
                    } else {
                        let got = canon_list(d, &l);
                        let w = canon_model(d, want);
                        out.check(got == w, &format!("{}/eq_model/multiset", name), || format!("{}({:?}) -> {:?} want {:?}", name, s, got, w));
                    }
                }
                Err(e) => {
                    let k = kind_of(&e);
                    let ok = if directed_only && !d { k == "WrongMethod" || (!all_present && k == "NodeNotFound") } else { !all_present && k == "NodeNotFound" };
                    out.check(ok, &format!("{}/error/kind", name), || format!("{}({:?}) -> {}", name, s, k));
                }
            }
        }
    }

    // ---- private indexes (hook)
    calls += 1;
    let snap = g.verif_snapshot();
    out.check(snap.nodes_vec == names, "snapshot/nodes_vec/eq_model", || format!("{:?}", snap.nodes_vec));
    let mut nm = snap.nodes_map.clone();
    nm.sort_by_key(|x| x.1);
    let want_nm: Vec<(String, usize)> = names.iter().cloned().enumerate().map(|(i, n)| (n, i)).collect();
    out.check(nm == want_nm, "snapshot/nodes_map/eq_model", || format!("{:?}", nm));
    let mut nr = snap.nodes_map_rev.clone();
    nr.sort();
    let want_nr: Vec<(usize, String)> = names.iter().cloned().enumerate().collect();
    out.check(nr == want_nr, "snapshot/nodes_map_rev/eq_model", || format!("{:?}", nr));
    // name-keyed store: per key the list must be the model's list for that pair, in insertion order
    let mut seen_pairs: BTreeSet<(String, String)> = BTreeSet::new();
    for ((a, b), l) in &snap.edges {
        let between = m.between(a, b);
        let got: Vec<EdgeKey3> = l.iter().map(|(u, v, w)| canon_edge(d, u, v, *w)).collect();
        let want: Vec<EdgeKey3> = between.iter().map(|e| canon_edge(d, &e.u, &e.v, e.w)).collect();
        out.check(got == want, "snapshot/edges/eq_model", || format!("edges[{:?},{:?}] = {:?} want {:?}", a, b, got, want));
        let key = if !d && a > b { (b.clone(), a.clone()) } else { (a.clone(), b.clone()) };
        out.check(seen_pairs.insert(key), "snapshot/edges/pair_stored_under_two_keys", || format!("pair {:?},{:?}", a, b));
    }
    let mut seen_pos: BTreeSet<(usize, usize)> = BTreeSet::new();
    let mut total_pos = 0;
    for ((i, j), l) in &snap.edges_map {
        if *i >= names.len() || *j >= names.len() {
            out.fail("snapshot/edges_map/position_out_of_range", format!("({}, {})", i, j));
            continue;
        }
        let between = m.between(&names[*i], &names[*j]);
        let got: Vec<EdgeKey3> = l.iter().map(|(u, v, w)| canon_edge(d, u, v, *w)).collect();
        let want: Vec<EdgeKey3> = between.iter().map(|e| canon_edge(d, &e.u, &e.v, e.w)).collect();
        out.check(got == want, "snapshot/edges_map/eq_model", || format!("edges_map[{},{}] = {:?} want {:?}", i, j, got, want));
        let key = if !d && i > j { (*j, *i) } else { (*i, *j) };
        out.check(seen_pos.insert(key), "snapshot/edges_map/pair_stored_under_two_keys", || format!("pair {},{}", i, j));
        total_pos += l.len();
    }
    let total_named: usize = snap.edges.iter().map(|(_, l)| l.len()).sum();
    out.check(total_named == m.edges.len() && total_pos == m.edges.len(), "snapshot/stores/edge_count", || {
        format!("name-keyed {} position-keyed {} model {}", total_named, total_pos, m.edges.len())
    });
    // position-level adjacency
    let pos = |n: &str| m.pos(n).unwrap();
    for i in 0..names.len() {
        let want_s: BTreeSet<usize> = if d {
            m.edges.iter().filter(|e| e.u == names[i]).map(|e| pos(&e.v)).collect()
        } else {
            m.edges.iter().filter(|e| e.u == names[i] || e.v == names[i]).map(|e| if e.u == names[i] { pos(&e.v) } else { pos(&e.u) }).collect()
        };
        let got_s: BTreeSet<usize> = snap.successors_map.iter().find(|(k, _)| *k == i).map(|(_, v)| v.iter().copied().collect()).unwrap_or_default();
        out.check(got_s == want_s, "snapshot/successors_map/eq_model", || format!("successors_map[{}] = {:?} want {:?}", i, got_s, want_s));
        if d {
            let want_p: BTreeSet<usize> = m.edges.iter().filter(|e| e.v == names[i]).map(|e| pos(&e.u)).collect();
            let got_p: BTreeSet<usize> = snap.predecessors_map.iter().find(|(k, _)| *k == i).map(|(_, v)| v.iter().copied().collect()).unwrap_or_default();
            out.check(got_p == want_p, "snapshot/predecessors_map/eq_model", || format!("predecessors_map[{}] = {:?} want {:?}", i, got_p, want_p));
        }
    }
    for (k, _) in snap.successors_map.iter().chain(snap.predecessors_map.iter()) {
        out.check(*k < names.len(), "snapshot/adjacency_map/position_out_of_range", || format!("{}", k));
    }
    // traversal lists: neighbour sets only (weights are C03's subject)
    out.check(snap.successors_vec.len() == names.len() && snap.predecessors_vec.len() == names.len(), "snapshot/adjacency_vec/length", || {
        format!("{} {} vs {}", snap.successors_vec.len(), snap.predecessors_vec.len(), names.len())
    });

    out.api_calls += calls;
    CoherenceStats { calls, absent_queries, inverted_pairs }
}

/// C03 (white-box): the traversal lists hold exactly the stored neighbours with the minimum stored
/// weight per pair.
pub fn traversal_check<A: Clone + Send + Sync>(g: &graphrs::Graph<String, A>, m: &Model, out: &mut Outcome) {
    let d = m.spec.directed;
    let names = m.names();
    let snap = g.verif_snapshot();
    out.api_calls += 1;
    if snap.successors_vec.len() != names.len() || snap.predecessors_vec.len() != names.len() {
        out.fail("traversal/length/eq_nodes", format!("{} / {} lists for {} nodes", snap.successors_vec.len(), snap.predecessors_vec.len(), names.len()));
        return;
    }
    // expected neighbour -> all stored weights of the pair, for every node, in one pass over the edges
    let index: std::collections::HashMap<&str, usize> = names.iter().enumerate().map(|(i, s)| (s.as_str(), i)).collect();
    let pos = |n: &str| *index.get(n).expect("edge endpoint is a node of the model");
    let mut all_s: Vec<BTreeMap<usize, Vec<f64>>> = vec![BTreeMap::new(); names.len()];
    let mut all_p: Vec<BTreeMap<usize, Vec<f64>>> = vec![BTreeMap::new(); names.len()];
    for e in &m.edges {
        let (iu, iv) = (pos(&e.u), pos(&e.v));
        all_s[iu].entry(iv).or_default().push(e.w);
        if !d && iu != iv {
            all_s[iv].entry(iu).or_default().push(e.w);
        }
        if d {
            all_p[iv].entry(iu).or_default().push(e.w);
        }
    }
    for i in 0..names.len() {
        let ws_s = &all_s[i];
        let ws_p = &all_p[i];
        // minimum weight; NaN when the pair is unweighted; None (not checked) when a pair mixes
        // weighted and unweighted edges, which C03 excludes
        let minw = |ws: &Vec<f64>| -> Option<f64> {
            if ws.iter().all(|w| w.is_nan()) {
                Some(f64::NAN)
            } else if ws.iter().any(|w| w.is_nan()) {
                None
            } else {
                Some(ws.iter().copied().fold(f64::INFINITY, f64::min))
            }
        };
        let want_s: BTreeMap<usize, Option<f64>> = ws_s.iter().map(|(k, v)| (*k, minw(v))).collect();
        let want_p: BTreeMap<usize, Option<f64>> = ws_p.iter().map(|(k, v)| (*k, minw(v))).collect();
        for (which, list, want) in [("successors_vec", &snap.successors_vec[i], &want_s), ("predecessors_vec", &snap.predecessors_vec[i], &want_p)] {
            if which == "predecessors_vec" && !d {
                continue; // documented as unused for undirected graphs
            }
            let got_set: BTreeSet<usize> = list.iter().map(|x| x.0).collect();
            let want_set: BTreeSet<usize> = want.keys().copied().collect();
            out.check(got_set == want_set, &format!("traversal/{}/neighbour_set", which), || {
                format!("{}[{}] = {:?} but stored neighbours are {:?}", which, i, list, want_set)
            });
            for (j, w) in list {
                if let Some(Some(ww)) = want.get(j) {
                    if !same_bits(*w, *ww) {
                        let class = if m.spec.multi {
                            "multi"
                        } else if *w < *ww {
                            "stale_lower_than_stored"
                        } else {
                            "stale_higher_than_stored"
                        };
                        out.fail(
                            format!("traversal/{}/weight/{}", which, class),
                            format!("{}[{}] has ({}, {}) but the minimum stored weight of that pair is {}", which, i, j, w, ww),
                        );
                    }
                }
            }
            // the same neighbour listed twice with different weights would make algorithms ambiguous
            let mut per: BTreeMap<usize, Vec<u64>> = BTreeMap::new();
            for (j, w) in list {
                per.entry(*j).or_default().push(wbits(*w));
            }
            for (j, ws) in per {
                let first = ws[0];
                out.check(ws.iter().all(|x| *x == first), &format!("traversal/{}/conflicting_duplicates", which), || {
                    format!("{}[{}] lists neighbour {} with weights {:?}", which, i, j, ws)
                });
            }
        }
    }
}
