use gverif::{engine, props};
use engine::{Opts, Tier};
use std::path::PathBuf;

fn main() {
    let args: Vec<String> = std::env::args().skip(1).collect();
    if args.is_empty() {
        eprintln!("usage: gverif <ID> [--tier quick|thorough] [--replay FILE] [--strict] [--scale F] [--no-evidence]");
        std::process::exit(2);
    }
    if args[0] == "--dump-graph" {
        // debugging aid: print the graph of a GraphCase-based replay file as Rust source
        let text = std::fs::read_to_string(&args[1]).expect("replay file");
        let v: serde_json::Value = serde_json::from_str(&text).expect("json");
        let c = v.get("case").cloned().unwrap_or(v);
        let g: gverif::graphcase::GraphCase = serde_json::from_value(c.get("g").cloned().unwrap_or(c)).expect("GraphCase");
        let ng = g.norm();
        println!("// directed={} multi={} loops={} weighted={}", ng.directed, ng.multi, ng.loops, ng.weighted);
        println!("let nodes = vec!{:?};", ng.order.iter().map(|i| ng.names[*i].clone()).collect::<Vec<_>>());
        println!("let edges = vec!{:?};", ng.edges.iter().map(|(i, j, w)| (ng.names[*i].clone(), ng.names[*j].clone(), *w)).collect::<Vec<_>>());
        return;
    }
    if args[0] == "--emit-corpus" {
        gverif::fuzz::emit_corpus(&PathBuf::from(args.get(1).cloned().unwrap_or_else(|| "/verif/fuzz/corpus".to_string())));
        return;
    }
    if args[0] == "--worker" {
        match args.get(1).map(|s| s.as_str()) {
            Some("C17") => props::c17::worker_main(),
            Some("C20") => props::c20::worker_main(),
            _ => std::process::exit(2),
        }
        return;
    }
    let id = args[0].clone();
    let mut tier = match std::env::var("VERIF_TIER").as_deref() {
        Ok("thorough") => Tier::Thorough,
        _ => Tier::Quick,
    };
    let mut replay = None;
    let mut strict = false;
    let mut scale = 1.0;
    let mut no_evidence = false;
    let mut i = 1;
    while i < args.len() {
        match args[i].as_str() {
            "--tier" => {
                i += 1;
                tier = if args.get(i).map(|s| s.as_str()) == Some("thorough") { Tier::Thorough } else { Tier::Quick };
            }
            "--replay" => {
                i += 1;
                replay = args.get(i).map(PathBuf::from);
            }
            "--strict" => strict = true,
            "--no-evidence" => no_evidence = true,
            "--scale" => {
                i += 1;
                scale = args.get(i).and_then(|s| s.parse().ok()).unwrap_or(1.0);
            }
            other => {
                eprintln!("unknown argument {}", other);
                std::process::exit(2);
            }
        }
        i += 1;
    }
    let seed: u64 = std::env::var("VERIF_SEED").ok().and_then(|s| s.trim().parse::<i64>().ok()).map(|x| x as u64).unwrap_or(0);
    let root = PathBuf::from(std::env::var("VERIF_ROOT").unwrap_or_else(|_| "/verif".to_string()));
    let opts = Opts { tier, seed, replay, root, strict, scale, no_evidence };
    let code = match id.as_str() {
        "C01" => engine::run(&props::c01::C01, &opts),
        "C02" => engine::run(&props::c02::C02 { tier }, &opts),
        "C03" => engine::run(&props::c03::C03, &opts),
        "C04" => engine::run(&props::c04::C04, &opts),
        "C05" => engine::run(&props::c05::C05, &opts),
        "C06" => engine::run(&props::c06::C06, &opts),
        "C07" => engine::run(&props::c07::C07 { tier }, &opts),
        "C08" => engine::run(&props::c08::C08, &opts),
        "C09" => engine::run(&props::c09::C09, &opts),
        "C10" => engine::run(&props::c10::C10, &opts),
        "C11" => engine::run(&props::c11::C11, &opts),
        "C12" => engine::run(&props::c12::C12, &opts),
        "C13" => engine::run(&props::c13::C13, &opts),
        "C14" => engine::run(&props::c14::C14 { root: opts.root.clone() }, &opts),
        "C15" => engine::run(&props::c15::C15, &opts),
        "C16" => engine::run(&props::c16::C16, &opts),
        "C17" => engine::run(&props::c17::C17, &opts),
        "C18" => engine::run(&props::c18::C18, &opts),
        "C19" => engine::run(&props::c19::C19, &opts),
        "C20" => engine::run(&props::c20::C20, &opts),
        _ => {
            eprintln!("unknown property {}", id);
            2
        }
    };
    std::process::exit(code);
}
