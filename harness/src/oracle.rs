//! Slow reference algorithms written from the definitions in the property statements
//! (never from graphrs code). All work on `NormGraph` indices.

use crate::graphcase::NormGraph;

pub const INF: f64 = f64::INFINITY;

/// w[i][j] = weight of the cheapest stored edge i->j (i-j when undirected), 1 in hop-count mode,
/// INF when there is none.
pub fn weight_matrix(g: &NormGraph, weighted: bool) -> Vec<Vec<f64>> {
    let n = g.n;
    let mut w = vec![vec![INF; n]; n];
    for (i, j, x) in &g.edges {
        let c = if weighted { *x } else { 1.0 };
        if c < w[*i][*j] {
            w[*i][*j] = c;
        }
        if !g.directed && c < w[*j][*i] {
            w[*j][*i] = c;
        }
    }
    w
}

/// Floyd–Warshall on a weight matrix; d[i][i] = 0.
pub fn floyd(w: &[Vec<f64>]) -> Vec<Vec<f64>> {
    let n = w.len();
    let mut d: Vec<Vec<f64>> = w.to_vec();
    for i in 0..n {
        d[i][i] = 0.0;
    }
    for k in 0..n {
        for i in 0..n {
            if d[i][k] == INF {
                continue;
            }
            for j in 0..n {
                let x = d[i][k] + d[k][j];
                if x < d[i][j] {
                    d[i][j] = x;
                }
            }
        }
    }
    d
}

/// Weight mode 15 (neighbouring doubles around 1): every finite distance below 4 is an exact sum
/// (multiples of 2^-51 below 4), and an inexact sum is at least 4, so it can tie with no exact one.
/// The exact-arithmetic oracles apply iff every finite distance is below 4.
pub fn ulp_exact(d: &[Vec<f64>]) -> bool {
    d.iter().all(|row| row.iter().all(|x| *x == INF || *x < 4.0))
}

/// Bellman–Ford with the same left-to-right fold as a label-setting search: dist[t] = min over
/// paths of ((0 + w1) + w2) + ... ; float addition is monotone so the DP is exact for that fold.
pub fn bellman_ford(w: &[Vec<f64>], s: usize) -> Vec<f64> {
    let n = w.len();
    let mut d = vec![INF; n];
    d[s] = 0.0;
    for _ in 0..n {
        let mut changed = false;
        for i in 0..n {
            if d[i] == INF {
                continue;
            }
            for j in 0..n {
                if w[i][j] == INF || i == j {
                    continue;
                }
                let x = d[i] + w[i][j];
                if x < d[j] {
                    d[j] = x;
                    changed = true;
                }
            }
        }
        if !changed {
            break;
        }
    }
    d
}

/// Enumerates every simple path from `s` (DFS) and keeps, per target, the paths of minimum length.
/// Exponential; only for tiny graphs. Returns (dist, paths) indexed by target.
pub fn brute_shortest_paths(w: &[Vec<f64>], s: usize) -> (Vec<f64>, Vec<Vec<Vec<usize>>>) {
    let n = w.len();
    let mut best = vec![INF; n];
    let mut paths: Vec<Vec<Vec<usize>>> = vec![vec![]; n];
    best[s] = 0.0;
    paths[s] = vec![vec![s]];
    let mut on = vec![false; n];
    on[s] = true;
    let mut cur = vec![s];
    fn dfs(w: &[Vec<f64>], v: usize, len: f64, on: &mut Vec<bool>, cur: &mut Vec<usize>, best: &mut Vec<f64>, paths: &mut Vec<Vec<Vec<usize>>>) {
        let n = w.len();
        for u in 0..n {
            if on[u] || w[v][u] == INF {
                continue;
            }
            let l = len + w[v][u];
            // prune: a simple path through u longer than best[u] can still be a prefix of nothing
            // shorter, because weights are non-negative — but it may be a prefix of an equally
            // short path only if l == best[u]; keep exploring only when l <= best[u].
            if l > best[u] {
                continue;
            }
            cur.push(u);
            if l < best[u] {
                best[u] = l;
                paths[u].clear();
            }
            paths[u].push(cur.clone());
            on[u] = true;
            dfs(w, u, l, on, cur, best, paths);
            on[u] = false;
            cur.pop();
        }
    }
    dfs(w, s, 0.0, &mut on, &mut cur, &mut best, &mut paths);
    // paths recorded while best[u] was still larger were cleared on improvement; those recorded
    // with equal length are all shortest
    (best, paths)
}

/// Number of shortest paths (as node sequences) from s to every t, via DP over the shortest-path
/// DAG in order of increasing distance. Requires strictly positive weights.
pub fn sigma_from(w: &[Vec<f64>], d: &[Vec<f64>], s: usize) -> Vec<f64> {
    let n = w.len();
    let mut order: Vec<usize> = (0..n).filter(|t| d[s][*t] < INF).collect();
    order.sort_by(|a, b| d[s][*a].partial_cmp(&d[s][*b]).unwrap());
    let mut sigma = vec![0.0; n];
    sigma[s] = 1.0;
    for &t in &order {
        if t == s {
            continue;
        }
        let mut c = 0.0;
        for p in 0..n {
            if p != t && w[p][t] < INF && d[s][p] < INF && d[s][p] + w[p][t] == d[s][t] {
                c += sigma[p];
            }
        }
        sigma[t] = c;
    }
    sigma
}

/// All shortest paths s->t by walking the shortest-path DAG backwards (for graphs too large for
/// brute force). `cap` bounds the number of paths returned.
pub fn dag_paths(w: &[Vec<f64>], d: &[Vec<f64>], s: usize, t: usize, cap: usize) -> Vec<Vec<usize>> {
    let n = w.len();
    if d[s][t] == INF {
        return vec![];
    }
    let mut out = vec![];
    let mut stack: Vec<Vec<usize>> = vec![vec![t]];
    while let Some(p) = stack.pop() {
        let head = p[p.len() - 1];
        if head == s {
            let mut q = p.clone();
            q.reverse();
            out.push(q);
            if out.len() >= cap {
                break;
            }
            continue;
        }
        for a in 0..n {
            if a != head && w[a][head] < INF && d[s][a] < INF && d[s][a] + w[a][head] == d[s][head] {
                let mut q = p.clone();
                q.push(a);
                stack.push(q);
            }
        }
    }
    out
}

/// Betweenness from explicit shortest-path sets: sum over ordered pairs (s,t), s != v != t, of the
/// fraction of shortest s-t paths through v.
pub fn betweenness_brute(w: &[Vec<f64>]) -> Vec<f64> {
    let n = w.len();
    let mut bc = vec![0.0; n];
    for s in 0..n {
        let (_, paths) = brute_shortest_paths(w, s);
        for t in 0..n {
            if t == s || paths[t].is_empty() {
                continue;
            }
            let total = paths[t].len() as f64;
            for v in 0..n {
                if v == s || v == t {
                    continue;
                }
                let through = paths[t].iter().filter(|p| p[1..p.len() - 1].contains(&v)).count() as f64;
                bc[v] += through / total;
            }
        }
    }
    bc
}

/// Betweenness via sigma products on the distance matrix (exact for dyadic weights).
pub fn betweenness_sigma(w: &[Vec<f64>]) -> Vec<f64> {
    let n = w.len();
    let d = floyd(w);
    let sig: Vec<Vec<f64>> = (0..n).map(|s| sigma_from(w, &d, s)).collect();
    let mut bc = vec![0.0; n];
    for s in 0..n {
        for t in 0..n {
            if s == t || d[s][t] == INF {
                continue;
            }
            for v in 0..n {
                if v == s || v == t {
                    continue;
                }
                if d[s][v] < INF && d[v][t] < INF && d[s][v] + d[v][t] == d[s][t] {
                    bc[v] += sig[s][v] * sig[v][t] / sig[s][t];
                }
            }
        }
    }
    bc
}

pub fn rescale_betweenness(bc: &mut [f64], n: usize, normalized: bool, directed: bool) {
    let scale = if normalized {
        if n > 2 {
            1.0 / (((n - 1) * (n - 2)) as f64)
        } else {
            1.0
        }
    } else if !directed {
        0.5
    } else {
        1.0
    };
    for x in bc.iter_mut() {
        *x *= scale;
    }
}

/// Closeness of u from the distance matrix: r = number of nodes that can reach u (u included);
/// (r-1)/sum of d(v,u); times (r-1)/(n-1) with wf_improved; 0 when nothing else reaches u.
pub fn closeness(d: &[Vec<f64>], wf_improved: bool) -> Vec<f64> {
    let n = d.len();
    (0..n)
        .map(|u| {
            let reach: Vec<usize> = (0..n).filter(|v| d[*v][u] < INF).collect();
            let r = reach.len() as f64;
            let tot: f64 = reach.iter().map(|v| d[*v][u]).sum();
            if r <= 1.0 || tot <= 0.0 || n <= 1 {
                0.0
            } else {
                let mut c = (r - 1.0) / tot;
                if wf_improved {
                    c *= (r - 1.0) / (n as f64 - 1.0);
                }
                c
            }
        })
        .collect()
}

/// boolean reachability closure (i reaches i)
pub fn reach(g: &NormGraph) -> Vec<Vec<bool>> {
    let w = weight_matrix(g, false);
    let d = floyd(&w);
    d.iter().map(|r| r.iter().map(|x| *x < INF).collect()).collect()
}

/// partition of 0..n into classes of an equivalence given as a predicate
pub fn classes(n: usize, eq: impl Fn(usize, usize) -> bool) -> Vec<Vec<usize>> {
    let mut out: Vec<Vec<usize>> = vec![];
    for i in 0..n {
        if let Some(c) = out.iter_mut().find(|c| eq(c[0], i)) {
            c.push(i);
        } else {
            out.push(vec![i]);
        }
    }
    out
}

// ------------------------------------------------------------------------------------------------
// clustering oracles (single-edge graphs; self-loops never count)

/// 0/1 adjacency without the diagonal; symmetric when undirected
pub fn adjacency(g: &NormGraph) -> Vec<Vec<f64>> {
    let n = g.n;
    let mut a = vec![vec![0.0; n]; n];
    for (i, j, _) in &g.edges {
        if i != j {
            a[*i][*j] = 1.0;
            if !g.directed {
                a[*j][*i] = 1.0;
            }
        }
    }
    a
}

/// cube roots of weights normalised by the largest weight, without the diagonal
pub fn cbrt_weights(g: &NormGraph) -> Vec<Vec<f64>> {
    let n = g.n;
    let maxw = g.edges.iter().map(|e| e.2).fold(f64::NEG_INFINITY, f64::max);
    let mut a = vec![vec![0.0; n]; n];
    for (i, j, w) in &g.edges {
        if i != j {
            a[*i][*j] = (w / maxw).cbrt();
            if !g.directed {
                a[*j][*i] = a[*i][*j];
            }
        }
    }
    a
}

fn mat_mul(a: &[Vec<f64>], b: &[Vec<f64>]) -> Vec<Vec<f64>> {
    let n = a.len();
    let mut c = vec![vec![0.0; n]; n];
    for i in 0..n {
        for k in 0..n {
            if a[i][k] == 0.0 {
                continue;
            }
            for j in 0..n {
                c[i][j] += a[i][k] * b[k][j];
            }
        }
    }
    c
}

/// undirected: number of triangles through each node and the loop-free degree
pub fn triangles_and_degrees(g: &NormGraph) -> (Vec<usize>, Vec<usize>) {
    let a = adjacency(g);
    let n = g.n;
    let mut t = vec![0usize; n];
    let mut d = vec![0usize; n];
    for v in 0..n {
        d[v] = (0..n).filter(|u| a[v][*u] > 0.0).count();
        for u in 0..n {
            for w in (u + 1)..n {
                if a[v][u] > 0.0 && a[v][w] > 0.0 && a[u][w] > 0.0 {
                    t[v] += 1;
                }
            }
        }
    }
    (t, d)
}

/// clustering coefficient of every node by the definitions in the statement
pub fn clustering_oracle(g: &NormGraph, weighted: bool) -> Vec<f64> {
    let n = g.n;
    let a = adjacency(g);
    let m = if weighted { cbrt_weights(g) } else { a.clone() };
    if !g.directed {
        (0..n)
            .map(|v| {
                let d = (0..n).filter(|u| a[v][*u] > 0.0).count() as f64;
                let mut t = 0.0;
                for u in 0..n {
                    for w in (u + 1)..n {
                        if a[v][u] > 0.0 && a[v][w] > 0.0 && a[u][w] > 0.0 {
                            t += if weighted { m[v][u] * m[u][w] * m[w][v] } else { 1.0 };
                        }
                    }
                }
                if t == 0.0 || d < 2.0 {
                    0.0
                } else {
                    2.0 * t / (d * (d - 1.0))
                }
            })
            .collect()
    } else {
        // Fagiolo: [(M + M^T)^3]_vv / (2 (d_tot (d_tot - 1) - 2 d_bi))
        let mut s = vec![vec![0.0; n]; n];
        for i in 0..n {
            for j in 0..n {
                s[i][j] = m[i][j] + m[j][i];
            }
        }
        let s2 = mat_mul(&s, &s);
        let s3 = mat_mul(&s2, &s);
        (0..n)
            .map(|v| {
                let dtot: f64 = (0..n).map(|u| a[v][u] + a[u][v]).sum();
                let dbi: f64 = (0..n).map(|u| a[v][u] * a[u][v]).sum();
                let denom = 2.0 * (dtot * (dtot - 1.0) - 2.0 * dbi);
                if s3[v][v] == 0.0 || denom <= 0.0 {
                    0.0
                } else {
                    s3[v][v] / denom
                }
            })
            .collect()
    }
}

/// undirected: histogram over incident (non-loop) edges of the number of triangles on that edge
pub fn generalized_degree_oracle(g: &NormGraph) -> Vec<std::collections::BTreeMap<usize, usize>> {
    let a = adjacency(g);
    let n = g.n;
    (0..n)
        .map(|v| {
            let mut h = std::collections::BTreeMap::new();
            for u in 0..n {
                if a[v][u] > 0.0 {
                    let c = (0..n).filter(|w| *w != u && *w != v && a[v][*w] > 0.0 && a[u][*w] > 0.0).count();
                    *h.entry(c).or_insert(0) += 1;
                }
            }
            h
        })
        .collect()
}

/// undirected: squares clustering (Lind et al., as documented by NetworkX), loop-free neighbour sets
pub fn square_clustering_oracle(g: &NormGraph) -> Vec<f64> {
    let a = adjacency(g);
    let n = g.n;
    let nb: Vec<Vec<usize>> = (0..n).map(|v| (0..n).filter(|u| a[v][*u] > 0.0).collect()).collect();
    (0..n)
        .map(|v| {
            let mut squares = 0.0;
            let mut potential = 0.0;
            for (x, &u) in nb[v].iter().enumerate() {
                for &w in nb[v].iter().skip(x + 1) {
                    let q = nb[u].iter().filter(|z| **z != v && nb[w].contains(z)).count() as f64;
                    let theta = if a[u][w] > 0.0 { 1.0 } else { 0.0 };
                    let degm = q + 1.0 + theta;
                    squares += q;
                    potential += (nb[u].len() as f64 - degm) + (nb[w].len() as f64 - degm) + q;
                }
            }
            if potential > 0.0 {
                squares / potential
            } else {
                0.0
            }
        })
        .collect()
}

// ------------------------------------------------------------------------------------------------
// O(n m log n) reference implementations for graphs too large for the cubic oracles. They are
// independent re-implementations (validated against the brute-force oracles on every small case
// by `self_test_fast_oracles`), used only for the large-size classes.

/// adjacency lists (neighbour, cheapest weight) from the edge list
pub fn adjacency_lists(g: &NormGraph, weighted: bool) -> Vec<Vec<(usize, f64)>> {
    let mut best: Vec<std::collections::BTreeMap<usize, f64>> = vec![Default::default(); g.n];
    for (i, j, x) in &g.edges {
        let c = if weighted { *x } else { 1.0 };
        let e = best[*i].entry(*j).or_insert(c);
        if c < *e {
            *e = c;
        }
        if !g.directed {
            let e = best[*j].entry(*i).or_insert(c);
            if c < *e {
                *e = c;
            }
        }
    }
    best.into_iter().map(|m| m.into_iter().collect()).collect()
}

/// single-source distances, shortest-path counts and a settle order (Dijkstra with exact ties)
pub fn sssp_counts(adj: &[Vec<(usize, f64)>], s: usize) -> (Vec<f64>, Vec<f64>, Vec<usize>, Vec<Vec<usize>>) {
    let n = adj.len();
    let mut dist = vec![INF; n];
    let mut sigma = vec![0.0; n];
    let mut preds: Vec<Vec<usize>> = vec![vec![]; n];
    let mut done = vec![false; n];
    let mut order = vec![];
    let mut heap = std::collections::BinaryHeap::new();
    dist[s] = 0.0;
    sigma[s] = 1.0;
    heap.push((std::cmp::Reverse(ordered(0.0)), s));
    while let Some((std::cmp::Reverse(dk), v)) = heap.pop() {
        if done[v] || dk != ordered(dist[v]) {
            continue;
        }
        done[v] = true;
        order.push(v);
        for &(u, w) in &adj[v] {
            if u == v {
                continue;
            }
            let nd = dist[v] + w;
            if nd < dist[u] {
                dist[u] = nd;
                sigma[u] = sigma[v];
                preds[u] = vec![v];
                heap.push((std::cmp::Reverse(ordered(nd)), u));
            } else if nd == dist[u] && !done[u] {
                sigma[u] += sigma[v];
                preds[u].push(v);
            }
        }
    }
    (dist, sigma, order, preds)
}

/// total order on non-negative finite floats via their bit pattern
fn ordered(x: f64) -> u64 {
    (x + 0.0).to_bits()
}

/// Brandes' algorithm (raw values, ordered pairs; not rescaled)
pub fn betweenness_fast(g: &NormGraph, weighted: bool) -> Vec<f64> {
    let adj = adjacency_lists(g, weighted);
    let n = g.n;
    let mut bc = vec![0.0; n];
    for s in 0..n {
        let (_, sigma, order, preds) = sssp_counts(&adj, s);
        let mut delta = vec![0.0; n];
        for &w in order.iter().rev() {
            for &v in &preds[w] {
                delta[v] += sigma[v] / sigma[w] * (1.0 + delta[w]);
            }
            if w != s {
                bc[w] += delta[w];
            }
        }
    }
    bc
}

/// closeness by one search per node on the reversed adjacency (incoming distances)
pub fn closeness_fast(g: &NormGraph, weighted: bool, wf_improved: bool) -> Vec<f64> {
    let n = g.n;
    let rev = NormGraph { edges: g.edges.iter().map(|(i, j, w)| (*j, *i, *w)).collect(), ..g.clone() };
    let adj = adjacency_lists(if g.directed { &rev } else { g }, weighted);
    (0..n)
        .map(|u| {
            let (dist, _, _, _) = sssp_counts(&adj, u);
            let reach: Vec<f64> = dist.into_iter().filter(|d| *d < INF).collect();
            let r = reach.len() as f64;
            let tot: f64 = reach.iter().sum();
            if r <= 1.0 || tot <= 0.0 || n <= 1 {
                0.0
            } else {
                let mut c = (r - 1.0) / tot;
                if wf_improved {
                    c *= (r - 1.0) / (n as f64 - 1.0);
                }
                c
            }
        })
        .collect()
}

/// procedurally generated sparse graph for the large-size classes: ring + 2 pseudo-random chords
/// per node; weights (when weighted) are dyadic k/4 so that sums are exact
pub fn procedural_graph(n: usize, seed: u64, directed: bool, weighted: bool) -> NormGraph {
    let mut edges = vec![];
    let mut seen = std::collections::HashSet::new();
    let mut s = seed | 1;
    let mut add = |a: usize, b: usize, s: u64, edges: &mut Vec<(usize, usize, f64)>| {
        if a == b {
            return;
        }
        let key = if !directed && a > b { (b, a) } else { (a, b) };
        if !seen.insert(key) {
            return;
        }
        let w = if weighted { (((s >> 20) % 12) as f64 + 1.0) / 4.0 } else { f64::NAN };
        edges.push((a, b, w));
    };
    for i in 0..n {
        s = crate::core::mix(s, i as u64);
        add(i, (i + 1) % n, s, &mut edges);
        // (graphs beyond 50 000 nodes get one chord per four nodes, to keep them affordable)
        let chords = if n > 50_000 { (i % 4 == 0) as usize } else { 2 };
        for _ in 0..chords {
            s = crate::core::mix(s, 0x77);
            add(i, (s % n as u64) as usize, s, &mut edges);
        }
    }
    if n >= 1000 {
        // two hubs at low positions that reach the first and the last few hundred positions and
        // about 3% of the others
        for hub in 0..2usize {
            for v in 2..n {
                s = crate::core::mix(s, v as u64);
                if s % 32 == 0 || v < 600 || v + 600 >= n {
                    add(hub, v, s, &mut edges);
                }
            }
        }
    }
    NormGraph {
        directed,
        multi: false,
        loops: false,
        n,
        names: (0..n).map(|i| format!("v{:05}", (i * 7919 + 13) % 100_003)).collect(),
        order: (0..n).collect(),
        edges,
        weighted,
    }
}

// ------------------------------------------------------------------------------------------------
// linear-time component oracles for the large-size class of C10

/// weakly connected component label of every node (union-find)
pub fn weak_labels(g: &NormGraph) -> Vec<usize> {
    let mut parent: Vec<usize> = (0..g.n).collect();
    fn find(p: &mut Vec<usize>, mut x: usize) -> usize {
        while p[x] != x {
            p[x] = p[p[x]];
            x = p[x];
        }
        x
    }
    for (i, j, _) in &g.edges {
        let (a, b) = (find(&mut parent, *i), find(&mut parent, *j));
        if a != b {
            parent[a] = b;
        }
    }
    (0..g.n).map(|i| find(&mut parent, i)).collect()
}

/// strongly connected component label of every node (iterative Kosaraju)
pub fn strong_labels(g: &NormGraph) -> Vec<usize> {
    let n = g.n;
    let mut out: Vec<Vec<usize>> = vec![vec![]; n];
    let mut inc: Vec<Vec<usize>> = vec![vec![]; n];
    for (i, j, _) in &g.edges {
        out[*i].push(*j);
        inc[*j].push(*i);
    }
    let mut order = Vec::with_capacity(n);
    let mut seen = vec![false; n];
    for s in 0..n {
        if seen[s] {
            continue;
        }
        let mut stack = vec![(s, 0usize)];
        seen[s] = true;
        while let Some((v, k)) = stack.pop() {
            if k < out[v].len() {
                stack.push((v, k + 1));
                let u = out[v][k];
                if !seen[u] {
                    seen[u] = true;
                    stack.push((u, 0));
                }
            } else {
                order.push(v);
            }
        }
    }
    let mut label = vec![usize::MAX; n];
    for &s in order.iter().rev() {
        if label[s] != usize::MAX {
            continue;
        }
        let mut stack = vec![s];
        label[s] = s;
        while let Some(v) = stack.pop() {
            for &u in &inc[v] {
                if label[u] == usize::MAX {
                    label[u] = s;
                    stack.push(u);
                }
            }
        }
    }
    label
}
