//! Grammar-based GraphML documents with a known expected graph (G1), injected faults (G2) and
//! single-point corruptions (G3). The writer here is independent of quick-xml.

use proptest::collection::vec;
use proptest::prelude::*;
use serde::{Deserialize, Serialize};

#[derive(Clone, Debug, PartialEq, Serialize, Deserialize)]
pub enum Item {
    Node {
        id: String,
        /// false: <node id=".."/>; true: <node id="..">...</node>
        open: bool,
        /// extra attributes (name index, value)
        extra: Vec<(u8, String)>,
        /// <data key="other">text</data> children (only when open)
        data: Vec<String>,
    },
    Edge {
        source: String,
        target: String,
        /// weight in quarters (k/4) and print format; None = no weight data
        weight: Option<(i16, u8)>,
        open: bool,
        extra: Vec<(u8, String)>,
        /// unrelated data children placed after the weight
        data: Vec<String>,
    },
    Comment(String),
    Pi(String),
    Space(u8),
    /// an element the reader does not know, possibly with children that are not weight data
    Unknown { name: u8, text: String, nested: bool },
}

#[derive(Clone, Debug, PartialEq, Serialize, Deserialize)]
pub enum Fault {
    NodeWithoutId(u8),
    EdgeWithoutSource(u8),
    EdgeWithoutTarget(u8),
    GraphWithoutEdgedefault,
    InvalidEdgedefault(u8),
    KeyWithoutFor,
    KeyWithoutId,
    NonNumericWeight(u8, u8),
    PaddedWeight(u8),
    UnknownEntityInAttribute(u8),
    UnknownEntityInWeight(u8),
    DuplicateAttribute(u8),
    UnquotedAttribute(u8),
    WeightDataUnderNode(u8),
    WeightDataBeforeAnyEdge,
    NestedGraph(u8),
    EmptyWeightData(u8),
    CommentBeforeWeightText(u8),
    CdataWeight(u8),
    WeightDataInUnknownElement(u8),
    UnclosedElement(u8),
    MismatchedEndTag(u8),
    SelfClosingWeightData(u8),
    BadUtf8EntityInName(u8),
    /// arbitrary (long, non-ASCII) text where the weight should be
    ArbitraryWeightText(u8, String),
    /// a second <graph> after the first one, with optional parse.nodes / parse.edges hints
    SecondGraph { nodes: u8, edges: u8, parse_nodes: Option<i64>, parse_edges: Option<i64>, directed: bool },
}

#[derive(Clone, Debug, PartialEq, Serialize, Deserialize)]
pub struct DocAst {
    /// GraphML's optional parse hints on the <graph> element (values need not be truthful)
    #[serde(default)]
    pub parse_hints: Option<(i64, i64, u8)>,
    pub prolog: bool,
    pub doctype: bool,
    /// id of the weight key; "weight" may be used without a declaration
    pub weight_key: String,
    pub declare_weight_key: bool,
    /// key written as <key ...><default>1</default></key> instead of <key .../>
    pub key_with_default: bool,
    /// other declared keys: (id, for-node?, attr.name)
    pub other_keys: Vec<(String, bool, String)>,
    pub directed: bool,
    pub graph_id: Option<String>,
    /// write the <graph> of an item-less document as a self-closing element
    pub self_closing_empty_graph: bool,
    /// attribute order / quoting variations
    pub style: u8,
    pub items: Vec<Item>,
}

pub fn esc(s: &str, quote: char) -> String {
    let mut o = String::new();
    for c in s.chars() {
        match c {
            '&' => o.push_str("&amp;"),
            '<' => o.push_str("&lt;"),
            '>' => o.push_str("&gt;"),
            '"' if quote == '"' => o.push_str("&quot;"),
            '\'' if quote == '\'' => o.push_str("&apos;"),
            c => o.push(c),
        }
    }
    o
}

const EXTRA_ATTRS: [&str; 6] = ["label", "color", "weight", "xsi:type", "parse.order", "x-note"];
const UNKNOWN_ELEMS: [&str; 5] = ["desc", "hyperedge", "port", "locator", "y:ShapeNode"];

pub fn fmt_weight(k: i16, style: u8) -> String {
    let x = k as f64 / 4.0;
    match style % 5 {
        0 => format!("{}", x),
        1 => format!("{:.3}", x),
        2 => format!("{:e}", x),
        3 => format!("{}e0", x),
        _ => {
            if x.fract() == 0.0 {
                format!("{}", x as i64)
            } else {
                format!("{:.2}", x)
            }
        }
    }
}

struct W {
    s: String,
    style: u8,
    count: u32,
}

impl W {
    fn quote(&mut self) -> char {
        self.count += 1;
        if self.style & 1 == 1 && self.count % 3 == 0 {
            '\''
        } else {
            '"'
        }
    }
    fn attrs(&mut self, mut a: Vec<(String, String)>) {
        if self.style & 2 == 2 {
            a.reverse();
        }
        for (k, v) in a {
            let q = self.quote();
            let sp = if self.style & 4 == 4 && self.count % 4 == 0 { "  " } else { " " };
            self.s.push_str(&format!("{}{}={}{}{}", sp, k, q, esc(&v, q), q));
        }
    }
}

/// Serialises the AST. `fault` changes exactly one place.
pub fn write_doc(d: &DocAst, fault: Option<&Fault>) -> String {
    let mut w = W { s: String::new(), style: d.style, count: 0 };
    if d.prolog {
        w.s.push_str("<?xml version=\"1.0\" encoding=\"UTF-8\"?>\n");
    }
    if d.doctype {
        w.s.push_str("<!-- generated -->\n");
    }
    w.s.push_str("<graphml xmlns=\"http://graphml.graphdrawing.org/xmlns\" xmlns:xsi=\"http://www.w3.org/2001/XMLSchema-instance\" xsi:schemaLocation=\"http://graphml.graphdrawing.org/xmlns http://graphml.graphdrawing.org/xmlns/1.0/graphml.xsd\">");
    if d.style & 8 == 8 {
        w.s.push('\n');
    }
    for (id, for_node, name) in &d.other_keys {
        w.s.push_str("<key");
        w.attrs(vec![("id".into(), id.clone()), ("for".into(), if *for_node { "node".into() } else { "edge".into() }), ("attr.name".into(), name.clone()), ("attr.type".into(), "string".into())]);
        w.s.push_str("/>");
    }
    if d.declare_weight_key {
        w.s.push_str("<key");
        let mut a = vec![("id".to_string(), d.weight_key.clone()), ("for".to_string(), "edge".to_string()), ("attr.name".to_string(), "weight".to_string()), ("attr.type".to_string(), "double".to_string())];
        match fault {
            Some(Fault::KeyWithoutFor) => {
                a.remove(1);
            }
            Some(Fault::KeyWithoutId) => {
                a.remove(0);
            }
            _ => {}
        }
        w.attrs(a);
        if d.key_with_default {
            w.s.push_str("><default>1.0</default></key>");
        } else {
            w.s.push_str("/>");
        }
    }
    // graph start
    let mut ga: Vec<(String, String)> = vec![];
    if let Some(id) = &d.graph_id {
        ga.push(("id".into(), id.clone()));
    }
    match fault {
        Some(Fault::GraphWithoutEdgedefault) => {}
        Some(Fault::InvalidEdgedefault(k)) => ga.push(("edgedefault".into(), ["Directed", "", "both", "undirected ", "true"][*k as usize % 5].into())),
        _ => ga.push(("edgedefault".into(), if d.directed { "directed".into() } else { "undirected".into() })),
    }
    if let Some((pn, pe, order)) = &d.parse_hints {
        ga.push(("parse.nodes".into(), pn.to_string()));
        ga.push(("parse.edges".into(), pe.to_string()));
        ga.push(("parse.order".into(), ["nodesfirst", "adjacencylist", "free"][*order as usize % 3].into()));
        ga.push(("parse.nodeids".into(), "free".into()));
    }
    w.s.push_str("<graph");
    w.attrs(ga);
    if d.items.is_empty() && d.self_closing_empty_graph && fault.is_none() {
        w.s.push_str("/></graphml>");
        return w.s;
    }
    w.s.push('>');
    if let Some(Fault::WeightDataBeforeAnyEdge) = fault {
        w.s.push_str(&format!("<data key=\"{}\">7.5</data>", esc(&d.weight_key, '"')));
    }
    let mut node_no = 0u8;
    let mut edge_no = 0u8;
    let n_nodes = d.items.iter().filter(|i| matches!(i, Item::Node { .. })).count().max(1) as u8;
    let n_edges = d.items.iter().filter(|i| matches!(i, Item::Edge { .. })).count().max(1) as u8;
    for it in &d.items {
        match it {
            Item::Node { id, open, extra, data } => {
                let this = node_no;
                node_no += 1;
                let hit = |k: &u8| *k % n_nodes == this;
                let mut a = vec![("id".to_string(), id.clone())];
                for (n, v) in extra {
                    a.push((EXTRA_ATTRS[*n as usize % EXTRA_ATTRS.len()].to_string(), v.clone()));
                }
                a.dedup_by(|x, y| x.0 == y.0);
                let mut seen = std::collections::HashSet::new();
                a.retain(|x| seen.insert(x.0.clone()));
                w.s.push_str("<node");
                match fault {
                    Some(Fault::NodeWithoutId(k)) if hit(k) => {
                        a.remove(0);
                        w.attrs(a);
                    }
                    Some(Fault::DuplicateAttribute(k)) if hit(k) => {
                        w.attrs(a);
                        w.s.push_str(" id=\"again\"");
                    }
                    Some(Fault::UnquotedAttribute(k)) if hit(k) => {
                        w.attrs(a);
                        w.s.push_str(" kind=plain");
                    }
                    Some(Fault::UnknownEntityInAttribute(k)) if hit(k) => {
                        w.attrs(a);
                        w.s.push_str(" label=\"a&nbsp;b\"");
                    }
                    Some(Fault::BadUtf8EntityInName(k)) if hit(k) => {
                        w.attrs(a);
                        w.s.push_str(" label=\"&#xD800;&#0;&#x110000;\"");
                    }
                    _ => w.attrs(a),
                }
                let under_node = matches!(fault, Some(Fault::WeightDataUnderNode(k)) if hit(k));
                if *open || under_node {
                    w.s.push('>');
                    for t in data {
                        w.s.push_str(&format!("<data key=\"dn\">{}</data>", esc(t, '"')));
                    }
                    if under_node {
                        w.s.push_str(&format!("<data key=\"{}\">3.25</data>", esc(&d.weight_key, '"')));
                    }
                    match fault {
                        Some(Fault::UnclosedElement(k)) if hit(k) => {}
                        Some(Fault::MismatchedEndTag(k)) if hit(k) => w.s.push_str("</edge>"),
                        _ => w.s.push_str("</node>"),
                    }
                } else {
                    w.s.push_str("/>");
                }
            }
            Item::Edge { source, target, weight, open, extra, data } => {
                let this = edge_no;
                edge_no += 1;
                let hit = |k: &u8| *k % n_edges == this;
                let mut a = vec![("source".to_string(), source.clone()), ("target".to_string(), target.clone())];
                for (n, v) in extra {
                    a.push((EXTRA_ATTRS[*n as usize % EXTRA_ATTRS.len()].to_string(), v.clone()));
                }
                let mut seen = std::collections::HashSet::new();
                a.retain(|x| seen.insert(x.0.clone()));
                match fault {
                    Some(Fault::EdgeWithoutSource(k)) if hit(k) => {
                        a.remove(0);
                    }
                    Some(Fault::EdgeWithoutTarget(k)) if hit(k) => {
                        a.remove(1);
                    }
                    _ => {}
                }
                w.s.push_str("<edge");
                w.attrs(a);
                let wfault = match fault {
                    Some(Fault::ArbitraryWeightText(k, _)) | Some(Fault::NonNumericWeight(k, _)) | Some(Fault::PaddedWeight(k)) | Some(Fault::UnknownEntityInWeight(k)) | Some(Fault::EmptyWeightData(k)) | Some(Fault::CommentBeforeWeightText(k)) | Some(Fault::CdataWeight(k)) | Some(Fault::SelfClosingWeightData(k)) if hit(k) => fault,
                    _ => None,
                };
                if weight.is_some() || *open || !data.is_empty() || wfault.is_some() {
                    w.s.push('>');
                    let key = esc(&d.weight_key, '"');
                    let wt = weight.map(|(k, st)| fmt_weight(k, st)).unwrap_or_else(|| "1.5".to_string());
                    match wfault {
                        Some(Fault::NonNumericWeight(_, which)) => w.s.push_str(&format!("<data key=\"{}\">{}</data>", key, ["abc", "1,5", "1.5kg", "--1", "0x10", "1e", ".", "1_000", "١٢٣"][*which as usize % 9])),
                        Some(Fault::ArbitraryWeightText(_, t)) => w.s.push_str(&format!("<data key=\"{}\">{}</data>", key, esc(t, '"'))),
                        Some(Fault::PaddedWeight(_)) => w.s.push_str(&format!("<data key=\"{}\"> {}\n</data>", key, wt)),
                        Some(Fault::UnknownEntityInWeight(_)) => w.s.push_str(&format!("<data key=\"{}\">&half;</data>", key)),
                        Some(Fault::EmptyWeightData(_)) => w.s.push_str(&format!("<data key=\"{}\"></data>", key)),
                        Some(Fault::CommentBeforeWeightText(_)) => w.s.push_str(&format!("<data key=\"{}\"><!--c-->{}</data>", key, wt)),
                        Some(Fault::CdataWeight(_)) => w.s.push_str(&format!("<data key=\"{}\"><![CDATA[{}]]></data>", key, wt)),
                        Some(Fault::SelfClosingWeightData(_)) => w.s.push_str(&format!("<data key=\"{}\"/>", key)),
                        _ => {
                            if weight.is_some() {
                                w.s.push_str(&format!("<data key=\"{}\">{}</data>", key, wt));
                            }
                        }
                    }
                    for t in data {
                        w.s.push_str(&format!("<data key=\"de\">{}</data>", esc(t, '"')));
                    }
                    w.s.push_str("</edge>");
                } else {
                    w.s.push_str("/>");
                }
            }
            Item::Comment(t) => {
                let t = t.replace("--", "- -");
                let t = t.trim_end_matches('-');
                w.s.push_str(&format!("<!--{}-->", t));
            }
            Item::Pi(t) => {
                let t = t.replace("?>", "? >");
                w.s.push_str(&format!("<?app {}?>", t));
            }
            // white space between the elements; one time in five it is not ASCII (documents pasted
            // from a web page or a word processor are indented with NO-BREAK SPACE or IDEOGRAPHIC
            // SPACE; character data between elements is legal XML and means nothing in GraphML)
            Item::Space(k) if *k >= 205 => w.s.push_str(["\u{a0}\u{a0}", "\n\u{3000}", "\n \u{a0}", "\u{2003}\u{feff}"][*k as usize % 4]),
            Item::Space(k) => w.s.push_str(["\n", "  ", "\n\t", " \n "][*k as usize % 4]),
            Item::Unknown { name, text, nested } => {
                let n = UNKNOWN_ELEMS[*name as usize % UNKNOWN_ELEMS.len()];
                if *nested {
                    w.s.push_str(&format!("<{}><data key=\"dx\">{}</data><sub a=\"1\"/></{}>", n, esc(text, '"'), n));
                } else {
                    w.s.push_str(&format!("<{}>{}</{}>", n, esc(text, '"'), n));
                }
            }
        }
    }
    match fault {
        Some(Fault::NestedGraph(k)) => {
            w.s.push_str(&format!("<node id=\"outer\"><graph edgedefault=\"{}\"><node id=\"inner\"/></graph></node>", if *k % 2 == 0 { "directed" } else { "undirected" }));
        }
        Some(Fault::WeightDataInUnknownElement(_)) => {
            w.s.push_str(&format!("<hyperedge><data key=\"{}\">9.75</data></hyperedge>", esc(&d.weight_key, '"')));
        }
        _ => {}
    }
    w.s.push_str("</graph>");
    if let Some(Fault::SecondGraph { nodes, edges, parse_nodes, parse_edges, directed }) = fault {
        w.s.push_str(&format!("<graph id=\"G2\" edgedefault=\"{}\"", if *directed { "directed" } else { "undirected" }));
        if let Some(p) = parse_nodes {
            w.s.push_str(&format!(" parse.nodes=\"{}\"", p));
        }
        if let Some(p) = parse_edges {
            w.s.push_str(&format!(" parse.edges=\"{}\"", p));
        }
        w.s.push('>');
        for i in 0..(*nodes % 6) {
            w.s.push_str(&format!("<node id=\"g2n{}\"/>", i));
        }
        for i in 0..(*edges % 6) {
            let m = (*nodes % 6).max(1);
            w.s.push_str(&format!("<edge source=\"g2n{}\" target=\"g2n{}\"/>", i % m, (i + 1) % m));
        }
        w.s.push_str("</graph>");
    }
    if d.style & 8 == 8 {
        w.s.push('\n');
    }
    w.s.push_str("</graphml>");
    if d.style & 16 == 16 {
        w.s.push('\n');
    }
    w.s
}

/// Expected node and edge elements of a fault-free document, in document order.
pub fn expected(d: &DocAst) -> (Vec<String>, Vec<(String, String, f64)>) {
    let mut nodes = vec![];
    let mut edges = vec![];
    for it in &d.items {
        match it {
            Item::Node { id, .. } => nodes.push(id.clone()),
            Item::Edge { source, target, weight, .. } => edges.push((source.clone(), target.clone(), weight.map(|(k, _)| k as f64 / 4.0).unwrap_or(f64::NAN))),
            _ => {}
        }
    }
    (nodes, edges)
}

fn xml_text() -> impl Strategy<Value = String> {
    prop_oneof![
        3 => "[a-z0-9 ]{0,6}",
        1 => prop::sample::select(vec!["<", "&", "a&b", "\"", "'", ">", "]]>", "é", "x y", "&amp;"]).prop_map(|s| s.to_string()),
    ]
}

fn node_id() -> impl Strategy<Value = String> {
    prop_oneof![
        8 => prop::sample::select(vec!["b", "a", "d", "c", "ab", "n1", "n2"]).prop_map(|s| s.to_string()),
        1 => prop::sample::select(vec!["", " ", "a b", "<x>", "&", "\"q\"", "it's", "é", "0"]).prop_map(|s| s.to_string()),
    ]
}

fn extra_attrs() -> impl Strategy<Value = Vec<(u8, String)>> {
    prop_oneof![4 => Just(vec![]), 1 => vec((any::<u8>(), xml_text()), 1..3)]
}

pub fn item() -> impl Strategy<Value = Item> {
    prop_oneof![
        6 => (node_id(), any::<bool>(), extra_attrs(), vec(xml_text(), 0..2)).prop_map(|(id, open, extra, data)| Item::Node { id, open, extra, data: if open { data } else { vec![] } }),
        8 => (node_id(), node_id(), proptest::option::weighted(0.6, (-8i16..64, any::<u8>())), any::<bool>(), extra_attrs(), vec(xml_text(), 0..2))
            .prop_map(|(source, target, weight, open, extra, data)| Item::Edge { source, target, weight, open, extra, data }),
        1 => xml_text().prop_map(Item::Comment),
        1 => "[a-z ]{0,5}".prop_map(Item::Pi),
        4 => any::<u8>().prop_map(Item::Space),
        1 => (any::<u8>(), xml_text(), any::<bool>()).prop_map(|(name, text, nested)| Item::Unknown { name, text, nested }),
    ]
}

pub fn doc() -> impl Strategy<Value = DocAst> {
    (
        any::<bool>(),
        any::<bool>(),
        prop_oneof![3 => Just("weight".to_string()), 2 => prop::sample::select(vec!["d0", "w", "k1", "wt", "edge weight"]).prop_map(|s| s.to_string())],
        any::<bool>(),
        prop::bool::weighted(0.2),
        vec((prop::sample::select(vec!["d5", "d6", "lbl"]).prop_map(|s| s.to_string()), any::<bool>(), prop::sample::select(vec!["color", "name", "weight"]).prop_map(|s| s.to_string())), 0..2),
        any::<bool>(),
        proptest::option::weighted(0.3, "[A-Za-z]{1,3}"),
        prop::bool::weighted(0.3),
        any::<u8>(),
        (vec(item(), 0..10), proptest::option::weighted(0.25, (prop_oneof![0i64..12, Just(-1i64), Just(1_000_000i64)], 0i64..12, any::<u8>()))),
    )
        .prop_map(|(prolog, doctype, weight_key, declare, key_with_default, mut other_keys, directed, graph_id, self_closing_empty_graph, style, (items, parse_hints))| {
            // a non-default key id must be declared; "weight" may go undeclared
            let declare_weight_key = declare || weight_key != "weight";
            // an extra key that also declares attr.name=weight for edges would redefine the weight key
            other_keys.retain(|(id, for_node, name)| !(name == "weight" && !*for_node) && *id != weight_key);
            other_keys.dedup_by(|a, b| a.0 == b.0);
            DocAst { parse_hints, prolog, doctype, weight_key, declare_weight_key, key_with_default, other_keys, directed, graph_id, self_closing_empty_graph, style, items }
        })
}

pub fn fault() -> impl Strategy<Value = Fault> {
    prop_oneof![
        any::<u8>().prop_map(Fault::NodeWithoutId),
        any::<u8>().prop_map(Fault::EdgeWithoutSource),
        any::<u8>().prop_map(Fault::EdgeWithoutTarget),
        Just(Fault::GraphWithoutEdgedefault),
        any::<u8>().prop_map(Fault::InvalidEdgedefault),
        Just(Fault::KeyWithoutFor),
        Just(Fault::KeyWithoutId),
        (any::<u8>(), any::<u8>()).prop_map(|(a, b)| Fault::NonNumericWeight(a, b)),
        any::<u8>().prop_map(Fault::PaddedWeight),
        any::<u8>().prop_map(Fault::UnknownEntityInAttribute),
        any::<u8>().prop_map(Fault::UnknownEntityInWeight),
        any::<u8>().prop_map(Fault::DuplicateAttribute),
        any::<u8>().prop_map(Fault::UnquotedAttribute),
        any::<u8>().prop_map(Fault::WeightDataUnderNode),
        Just(Fault::WeightDataBeforeAnyEdge),
        any::<u8>().prop_map(Fault::NestedGraph),
        any::<u8>().prop_map(Fault::EmptyWeightData),
        any::<u8>().prop_map(Fault::CommentBeforeWeightText),
        any::<u8>().prop_map(Fault::CdataWeight),
        any::<u8>().prop_map(Fault::WeightDataInUnknownElement),
        any::<u8>().prop_map(Fault::UnclosedElement),
        any::<u8>().prop_map(Fault::MismatchedEndTag),
        any::<u8>().prop_map(Fault::SelfClosingWeightData),
        any::<u8>().prop_map(Fault::BadUtf8EntityInName),
        (any::<u8>(), any::<u8>(), proptest::option::of(-2i64..12), proptest::option::of(-2i64..12), any::<bool>())
            .prop_map(|(nodes, edges, parse_nodes, parse_edges, directed)| Fault::SecondGraph { nodes, edges, parse_nodes, parse_edges, directed }),
        (any::<u8>(), prop_oneof![
            "\\PC{0,90}",
            "[a-zé中\u{1F600} ]{30,90}",
            "[0-9.eE+-]{1,40}",
        ]).prop_map(|(k, t)| Fault::ArbitraryWeightText(k, t)),
    ]
}

/// Does the fault actually touch this document (e.g. a node fault needs a node)?
pub fn fault_applies(d: &DocAst, f: &Fault) -> bool {
    let has_node = d.items.iter().any(|i| matches!(i, Item::Node { .. }));
    let has_edge = d.items.iter().any(|i| matches!(i, Item::Edge { .. }));
    match f {
        Fault::NodeWithoutId(_) | Fault::DuplicateAttribute(_) | Fault::UnquotedAttribute(_) | Fault::UnknownEntityInAttribute(_) | Fault::WeightDataUnderNode(_) | Fault::BadUtf8EntityInName(_) => has_node,
        Fault::UnclosedElement(k) | Fault::MismatchedEndTag(k) => {
            let n = d.items.iter().filter(|i| matches!(i, Item::Node { .. })).count();
            n > 0 && d.items.iter().filter(|i| matches!(i, Item::Node { .. })).nth(*k as usize % n).map_or(false, |i| matches!(i, Item::Node { open: true, .. }))
        }
        Fault::EdgeWithoutSource(_) | Fault::EdgeWithoutTarget(_) | Fault::ArbitraryWeightText(..) | Fault::NonNumericWeight(..) | Fault::PaddedWeight(_) | Fault::UnknownEntityInWeight(_) | Fault::EmptyWeightData(_) | Fault::CommentBeforeWeightText(_) | Fault::CdataWeight(_) | Fault::SelfClosingWeightData(_) => has_edge,
        Fault::KeyWithoutFor | Fault::KeyWithoutId => d.declare_weight_key,
        _ => true,
    }
}

/// The faults for which the reader documents an error (required-attribute checks).
pub fn fault_must_be_read_error(f: &Fault) -> bool {
    matches!(f, Fault::NodeWithoutId(_) | Fault::EdgeWithoutSource(_) | Fault::EdgeWithoutTarget(_) | Fault::GraphWithoutEdgedefault | Fault::InvalidEdgedefault(_))
}

/// single-point corruption: kind 0 delete, 1 duplicate, 2 truncate, 3 replace with `ch`
pub fn corrupt(text: &str, pos: usize, kind: u8, ch: char) -> String {
    let chars: Vec<char> = text.chars().collect();
    if chars.is_empty() {
        return String::new();
    }
    let p = pos % chars.len();
    let mut out: Vec<char> = chars.clone();
    match kind % 4 {
        0 => {
            out.remove(p);
        }
        1 => out.insert(p, chars[p]),
        2 => out.truncate(p),
        _ => out[p] = ch,
    }
    out.into_iter().collect()
}

pub const REPLACEMENTS: [char; 12] = ['<', '>', '&', '"', '\'', '/', '=', ' ', ';', '#', 'x', '\u{e9}'];
