//! The "more than 2^16 nodes" dimension for the properties whose oracles are otherwise quadratic or
//! worse. One procedurally generated sparse graph of 66 003 nodes (ring, chords, two low-position
//! hubs; directed or undirected; dyadic weights) is checked with *sampled* queries and
//! linear-time oracles. Positions, counters or packed keys that are narrower than `usize`, and
//! per-size code paths that only switch on far above the sizes the random block generates, are out
//! of reach otherwise. The sampled positions include the neighbourhood of 2^8, 2^15 and 2^16.

use crate::core::*;
use crate::graphcase::{GraphCase, NormGraph};
use crate::model::{wbits, ABSENT, G};
use crate::oracle::{adjacency_lists, sssp_counts, INF};
use std::collections::{BTreeMap, BTreeSet, HashSet};
#[allow(unused_imports)]
use crate::core::res_kind as _res_kind;

pub const HUGE_N: u32 = 66_003;

pub fn is_huge(ng: &NormGraph) -> bool {
    ng.n > 60_000
}

/// the fixed huge cases of a property: undirected / directed, weighted; then the same two kinds
/// with self-loops allowed and present on the first hub and on one ordinary node
pub fn huge_cases() -> Vec<GraphCase> {
    [0u8, 1, 4, 5].into_iter().map(|kind| GraphCase { kind, n: 0, perm: 0, shape: 0, edges: vec![], wmode: 1, big_n: HUGE_N, big_seed: 0x5eed + kind as u64 }).collect()
}

/// positions around powers of two, both hubs, both ends, and ~300 pseudo-random ones
pub fn sample(n: usize) -> Vec<usize> {
    let mut s: BTreeSet<usize> = [0usize, 1, 2, 3, 254, 255, 256, 257, 599, 600, 601, 32_766, 32_767, 32_768, 32_769, 65_534, 65_535, 65_536, 65_537, 65_538].into_iter().filter(|i| *i < n).collect();
    s.extend([n - 1, n.saturating_sub(2), n.saturating_sub(600), n.saturating_sub(601)]);
    if n <= 2000 {
        s.extend(0..n);
    }
    let mut x = 0x1234_5678_9abc_def0u64;
    for k in 0..300u64 {
        x = mix(x, k);
        s.insert((x % n as u64) as usize);
    }
    s.into_iter().collect()
}

pub struct Adj {
    /// outgoing (undirected: all) neighbours with weights
    pub out: Vec<Vec<(usize, f64)>>,
    /// incoming neighbours (directed only)
    pub inn: Vec<Vec<(usize, f64)>>,
}

pub fn adj_of(ng: &NormGraph) -> Adj {
    let mut out = vec![vec![]; ng.n];
    let mut inn = vec![vec![]; ng.n];
    for (i, j, w) in &ng.edges {
        out[*i].push((*j, *w));
        if ng.directed {
            inn[*j].push((*i, *w));
        } else if i != j {
            out[*j].push((*i, *w));
        }
    }
    Adj { out, inn }
}

fn key(ng: &NormGraph, a: usize, b: usize, w: f64) -> (usize, usize, u64) {
    if !ng.directed && a > b {
        (b, a, wbits(w))
    } else {
        (a, b, wbits(w))
    }
}

/// C02 on the huge graph: every sampled read agrees with the edge list.
pub fn core_reads(g: &G, ng: &NormGraph, out: &mut Outcome) {
    let n = ng.n;
    let adj = adj_of(ng);
    let index: std::collections::HashMap<&str, usize> = ng.names.iter().enumerate().map(|(i, s)| (s.as_str(), i)).collect();
    let ix = |s: &String| -> usize { index.get(s.as_str()).copied().unwrap_or(usize::MAX) };
    out.api_calls += 4;
    out.check(g.number_of_nodes() == n, "number_of_nodes/eq_model/huge_graph", || format!("{} vs {}", g.number_of_nodes(), n));
    out.check(g.number_of_edges() == ng.edges.len(), "number_of_edges/eq_model/huge_graph", || format!("{} vs {}", g.number_of_edges(), ng.edges.len()));
    let names: Vec<&String> = g.get_all_node_names();
    out.check(names.len() == n && names.iter().zip(&ng.names).all(|(a, b)| *a == b), "get_all_node_names/eq_model/huge_graph", || "order or membership differs".to_string());
    let mut all: Vec<(usize, usize, u64)> = g.get_all_edges().iter().map(|e| key(ng, ix(&e.u), ix(&e.v), e.weight)).collect();
    all.sort();
    let mut want_all: Vec<(usize, usize, u64)> = ng.edges.iter().map(|(i, j, w)| key(ng, *i, *j, *w)).collect();
    want_all.sort();
    out.check(all == want_all, "get_all_edges/eq_model/huge_graph", || format!("{} edges returned, {} stored; first difference at {:?}", all.len(), want_all.len(), all.iter().zip(&want_all).position(|(a, b)| a != b)));
    let trace = std::env::var("VERIF_HUGE_TRACE").is_ok();
    let t0 = std::time::Instant::now();
    for &i in &sample(n) {
        if !out.failures.is_empty() {
            return;
        }
        if trace {
            eprintln!("sample {} deg {} t={:.2}", i, adj.out[i].len() + adj.inn[i].len(), t0.elapsed().as_secs_f64());
        }
        let x = ng.names[i].clone();
        out.api_calls += 8;
        out.check(g.get_node_by_index(&i).map(|nd| nd.name.clone()) == Some(x.clone()), "get_node_by_index/eq_model/huge_graph", || format!("position {}", i));
        out.check(g.get_node(x.clone()).map(|nd| (nd.name.clone(), nd.attributes)) == Some((x.clone(), Some(i as i32))), "get_node/eq_model/huge_graph", || format!("position {}", i));
        out.check(g.has_node(&x), "has_node/eq_model/huge_graph", || format!("position {}", i));
        // incident edges
        // (a directed self-loop is one edge: listed once)
        let mut want: Vec<(usize, usize, u64)> = adj.out[i].iter().map(|(j, w)| key(ng, i, *j, *w)).chain(adj.inn[i].iter().filter(|(j, _)| *j != i).map(|(j, w)| key(ng, *j, i, *w))).collect();
        want.sort();
        match g.get_edges_for_node(x.clone()) {
            Ok(l) => {
                let mut got: Vec<(usize, usize, u64)> = l.iter().map(|e| key(ng, ix(&e.u), ix(&e.v), e.weight)).collect();
                got.sort();
                out.check(got == want, "get_edges_for_node/eq_model/huge_graph", || format!("position {}: {} edges, want {}", i, got.len(), want.len()));
            }
            Err(e) => out.fail("get_edges_for_node/error/huge_graph", format!("position {}: {}", i, kind_of(&e))),
        }
        let succ: BTreeSet<usize> = adj.out[i].iter().map(|x| x.0).collect();
        let pred: BTreeSet<usize> = adj.inn[i].iter().map(|x| x.0).collect();
        if ng.directed {
            match (g.get_successor_node_names(x.clone()), g.get_predecessor_node_names(x.clone())) {
                (Ok(s), Ok(p)) => {
                    let s: BTreeSet<usize> = s.into_iter().map(&ix).collect();
                    let p: BTreeSet<usize> = p.into_iter().map(&ix).collect();
                    out.check(s == succ, "get_successor_node_names/eq_model/huge_graph", || format!("position {}: {:?} want {:?}", i, s.len(), succ.len()));
                    out.check(p == pred, "get_predecessor_node_names/eq_model/huge_graph", || format!("position {}: {:?} want {:?}", i, p.len(), pred.len()));
                }
                _ => out.fail("get_successor_node_names/error/huge_graph", format!("position {}", i)),
            }
        }
        match g.get_neighbor_nodes(x.clone()) {
            Ok(l) => {
                let got: BTreeSet<usize> = l.iter().map(|nd| ix(&nd.name)).collect();
                let want: BTreeSet<usize> = succ.union(&pred).copied().collect();
                out.check(got == want && l.len() == got.len(), "get_neighbor_nodes/eq_model/huge_graph", || format!("position {}: {} want {}", i, got.len(), want.len()));
            }
            Err(e) => out.fail("get_neighbor_nodes/error/huge_graph", format!("position {}: {}", i, kind_of(&e))),
        }
        // pair lookups: every stored out-neighbour (up to 40), one absent pair, the absent name
        let far = (i + n / 2 + 7) % n;
        let far_absent = !succ.contains(&far) && !(!ng.directed && pred.contains(&far)) && far != i;
        if ng.multi {
            let nbrs: BTreeSet<usize> = adj.out[i].iter().map(|x| x.0).take(40).collect();
            for j in nbrs {
                out.api_calls += 1;
                let mut want: Vec<u64> = adj.out[i].iter().filter(|x| x.0 == j).map(|x| wbits(x.1)).collect();
                if !ng.directed && i == j {
                    // (an undirected self-loop is listed once in the adjacency oracle)
                }
                want.sort();
                match g.get_edges(x.clone(), ng.names[j].clone()) {
                    Ok(l) => {
                        let mut got: Vec<u64> = l.iter().map(|e| wbits(e.weight)).collect();
                        got.sort();
                        out.check(got == want, "get_edges/eq_model/huge_graph", || format!("({}, {}): {} parallel edges, want {}", i, j, got.len(), want.len()));
                    }
                    Err(e) => out.fail("get_edges/present_edge/huge_graph", format!("({}, {}): {}", i, j, kind_of(&e))),
                }
            }
            if far_absent {
                out.api_calls += 1;
                let r = g.get_edges(x.clone(), ng.names[far].clone());
                out.check(matches!(&r, Err(e) if kind_of(e) == "EdgeNotFound") || matches!(&r, Ok(l) if l.is_empty()), "get_edges/absent_edge/huge_graph", || format!("({}, {}): {}", i, far, res_kind(&r)));
            }
        } else {
            for (j, w) in adj.out[i].iter().take(40) {
                out.api_calls += 1;
                match g.get_edge(x.clone(), ng.names[*j].clone()) {
                    Ok(e) => {
                        out.check(same_bits(e.weight, *w) || (e.weight.is_nan() && w.is_nan()), "get_edge/eq_model/huge_graph", || format!("({}, {}): weight {} want {}", i, j, e.weight, w));
                    }
                    Err(e) => out.fail("get_edge/present_edge/huge_graph", format!("({}, {}): {}", i, j, kind_of(&e))),
                }
            }
            if far_absent {
                out.api_calls += 1;
                let r = g.get_edge(x.clone(), ng.names[far].clone());
                out.check(matches!(&r, Err(e) if kind_of(e) == "EdgeNotFound"), "get_edge/absent_edge/huge_graph", || format!("({}, {}): {}", i, far, res_kind(&r)));
            }
        }
    }
    out.api_calls += 2;
    let r = g.get_edge(ng.names[0].clone(), ABSENT.to_string());
    out.check(matches!(&r, Err(e) if kind_of(e) == "NodeNotFound" || (ng.multi && kind_of(e) == "WrongMethod")), "get_edge/absent_node/huge_graph", || res_kind(&r));
    // (breadth_first_search is not called here: the library rebuilds the frontier set once per
    // visited node, which takes minutes on levels of tens of thousands of nodes; C10 covers it)
}

/// C01 on the huge graph: mutations at high positions follow the strict policies of `SpecBits::kind`.
pub fn core_mutations(g: &mut G, ng: &NormGraph, out: &mut Outcome) {
    use crate::model::{mk_edge, mk_node};
    let n = ng.n;
    let (a, b) = (ng.names[n - 1].clone(), ng.names[n - 300].clone());
    let stored = ng.edges.iter().any(|(i, j, _)| (*i == n - 1 && *j == n - 300) || (!ng.directed && *i == n - 300 && *j == n - 1));
    let m0 = g.number_of_edges();
    out.api_calls += 6;
    // a new edge between two high positions
    if !stored {
        let r = g.add_edge(mk_edge(&a, &b, 2.5));
        out.check(r.is_ok(), "add_edge/outcome/huge_graph", || res_kind(&r));
        out.check(g.number_of_edges() == m0 + 1, "add_edge/edge_multiset/huge_graph", || format!("{} edges after adding one to {}", g.number_of_edges(), m0));
        let e = g.get_edge(a.clone(), b.clone());
        out.check(matches!(&e, Ok(e) if e.weight == 2.5), "add_edge/get_edge/huge_graph", || res_kind(&e));
        // its duplicate is rejected (dedupe = Error) and changes nothing
        let r = g.add_edge(mk_edge(&a, &b, 7.0));
        out.check(matches!(&r, Err(e) if kind_of(e) == "DuplicateEdge"), "add_edge/outcome/huge_graph_duplicate", || res_kind(&r));
        if !ng.directed {
            let r = g.add_edge(mk_edge(&b, &a, 7.0));
            out.check(matches!(&r, Err(e) if kind_of(e) == "DuplicateEdge"), "add_edge/outcome/huge_graph_duplicate_reversed", || res_kind(&r));
        }
        let e = g.get_edge(a.clone(), b.clone());
        out.check(matches!(&e, Ok(e) if e.weight == 2.5) && g.number_of_edges() == m0 + 1, "add_edge/error_leaves_graph_unchanged/huge_graph", || res_kind(&e));
    }
    // re-adding a node beyond position 2^16 replaces its attributes and keeps its position
    let p = 65_537usize.min(n - 1);
    g.add_node(mk_node(&ng.names[p], Some(-7)));
    out.check(g.number_of_nodes() == n, "add_node/node_list/huge_graph", || format!("{} nodes", g.number_of_nodes()));
    out.check(g.get_node_by_index(&p).map(|x| (x.name.clone(), x.attributes)) == Some((ng.names[p].clone(), Some(-7))), "add_node/position_kept/huge_graph", || format!("position {}", p));
    out.check(g.get_node_by_index(&(p + 1).min(n - 1)).map(|x| x.name.clone()) == Some(ng.names[(p + 1).min(n - 1)].clone()), "add_node/position_kept/huge_graph_next", || format!("position {}", p + 1));
    // an unknown endpoint is rejected (missing = Error), a self-loop too (loops = false)
    let r = g.add_edge(mk_edge(&a, ABSENT, 1.0));
    out.check(matches!(&r, Err(e) if kind_of(e) == "NodeNotFound"), "add_edge/outcome/huge_graph_missing", || res_kind(&r));
    let r = g.add_edge(mk_edge(&a, &a, 1.0));
    out.check(matches!(&r, Err(e) if kind_of(e) == "SelfLoopsFound"), "add_edge/outcome/huge_graph_loop", || res_kind(&r));
    out.check(g.number_of_nodes() == n && g.number_of_edges() == m0 + (!stored) as usize, "add_edge/error_leaves_graph_unchanged/huge_graph_counts", || format!("{} nodes {} edges", g.number_of_nodes(), g.number_of_edges()));
}

/// C03 / C04 on the huge graph: distances from a few sources against a heap Dijkstra on the edge list.
pub fn distances(g: &G, ng: &NormGraph, api: &str, out: &mut Outcome) {
    distances_opt(g, ng, api, true, out)
}

/// `first_only = false` asks for every shortest path (only sensible where they are few)
pub fn distances_opt(g: &G, ng: &NormGraph, api: &str, first_only: bool, out: &mut Outcome) {
    use graphrs::algorithms::shortest_path::dijkstra;
    let n = ng.n;
    let index: std::collections::HashMap<&str, usize> = ng.names.iter().enumerate().map(|(i, s)| (s.as_str(), i)).collect();
    for weighted in [false, true] {
        let adj = adjacency_lists(ng, weighted);
        for s in [0usize, 65_536.min(n - 1), n - 1] {
            let (dist, _, _, _) = sssp_counts(&adj, s);
            out.api_calls += 1;
            // (first_only: the set of all shortest paths is not needed here)
            match guard(|| dijkstra::single_source(g, weighted, ng.names[s].clone(), None, None, first_only, true)) {
                Err(p) => out.fail(format!("{}/panic/{}", api, panic_class(&p)), p),
                Ok(Err(e)) => out.fail(format!("{}/error/huge_graph", api), kind_of(&e)),
                Ok(Ok(m)) => {
                    let reachable = dist.iter().filter(|d| **d < INF).count();
                    if m.len() != reachable {
                        out.fail(format!("{}/targets/huge_graph", api), format!("source {}: {} targets, {} reachable", s, m.len(), reachable));
                        return;
                    }
                    for t in sample(n) {
                        let got = m.get(&ng.names[t]).map(|i| i.distance);
                        let want = if dist[t] < INF { Some(dist[t]) } else { None };
                        if got != want {
                            out.fail(format!("{}/distance/huge_graph", api), format!("d({}, {}) = {:?}, the edge list gives {:?} (weighted {})", s, t, got, want, weighted));
                            return;
                        }
                        // the returned path is a path of that length
                        if let (Some(info), Some(w)) = (m.get(&ng.names[t]), want) {
                            if let Some(p) = info.paths.first() {
                                let idx: Vec<usize> = p.iter().map(|x| index.get(x.as_str()).copied().unwrap_or(usize::MAX)).collect();
                                let mut len = 0.0;
                                let mut ok = idx.first() == Some(&s) && idx.last() == Some(&t);
                                for k in 1..idx.len() {
                                    match adj.get(idx[k - 1]).map(|l| &l[..]).unwrap_or(&[]).iter().filter(|(j, _)| *j == idx[k]).map(|(_, w)| *w).fold(None, |a: Option<f64>, b| Some(a.map_or(b, |a| a.min(b)))) {
                                        Some(w) => len += w,
                                        None => ok = false,
                                    }
                                }
                                if !ok || len != w {
                                    out.fail(format!("{}/path/huge_graph", api), format!("path {}->{} is not a path of length {} (length {}, valid {})", s, t, w, len, ok));
                                    return;
                                }
                            }
                        }
                    }
                }
            }
        }
    }
}

/// C09 on the huge graph.
pub fn degrees(g: &G, ng: &NormGraph, out: &mut Outcome) {
    use graphrs::algorithms::centrality::degree::degree_centrality;
    let n = ng.n;
    let adj = adj_of(ng);
    let m = ng.edges.len();
    out.api_calls += 8;
    out.check(g.number_of_nodes() == n && g.number_of_edges() == m && g.size(false) == m as f64, "number_of_edges/eq_model/huge_graph", || format!("{} {} {}", g.number_of_nodes(), g.number_of_edges(), g.size(false)));
    let total: f64 = ng.edges.iter().map(|e| e.2).sum();
    out.check(g.size(true) == total, "size_weighted/eq_model/huge_graph", || format!("{} vs {}", g.size(true), total));
    let deg = g.get_degree_for_all_nodes();
    let wdeg = g.get_weighted_degree_for_all_nodes();
    let dc = degree_centrality(g);
    let ind = g.get_in_degree_for_all_nodes();
    let outd = g.get_out_degree_for_all_nodes();
    out.check(deg.len() == n && wdeg.len() == n && dc.len() == n, "get_degree_for_all_nodes/keys/huge_graph", || format!("{} {} {}", deg.len(), wdeg.len(), dc.len()));
    out.check(ind.is_ok() == ng.directed && outd.is_ok() == ng.directed, "get_in_degree_for_all_nodes/kind_guard/huge_graph", || "wrong kind".to_string());
    // an undirected self-loop is listed once in the adjacency oracle but adds two to the degree
    let extra = |i: usize| -> (usize, f64) {
        if ng.directed {
            (0, 0.0)
        } else {
            adj.out[i].iter().filter(|x| x.0 == i).fold((0, 0.0), |a, x| (a.0 + 1, a.1 + x.1))
        }
    };
    let mut sum = 0usize;
    for i in 0..n {
        let want = adj.out[i].len() + adj.inn[i].len() + extra(i).0;
        let wwant: f64 = adj.out[i].iter().chain(adj.inn[i].iter()).map(|x| x.1).sum::<f64>() + extra(i).1;
        let x = &ng.names[i];
        let got = deg.get(x).copied();
        sum += got.unwrap_or(0);
        if got != Some(want) {
            out.fail("get_degree_for_all_nodes/eq_model/huge_graph", format!("position {}: {:?} want {}", i, got, want));
            return;
        }
        if wdeg.get(x).copied() != Some(wwant) {
            out.fail("get_weighted_degree_for_all_nodes/eq_model/huge_graph", format!("position {}: {:?} want {}", i, wdeg.get(x), wwant));
            return;
        }
        let wantc = want as f64 / (n as f64 - 1.0);
        if !dc.get(x).map_or(false, |v| approx(*v, wantc, 1e-12, 1e-15)) {
            out.fail("degree_centrality/eq_model/huge_graph", format!("position {}: {:?} want {}", i, dc.get(x), wantc));
            return;
        }
        if let (Ok(a), Ok(b)) = (&ind, &outd) {
            if a.get(x).copied() != Some(adj.inn[i].len()) || b.get(x).copied() != Some(adj.out[i].len()) {
                out.fail("get_in_degree_for_all_nodes/eq_model/huge_graph", format!("position {}: in {:?} out {:?} want {} {}", i, a.get(x), b.get(x), adj.inn[i].len(), adj.out[i].len()));
                return;
            }
        }
    }
    out.check(sum == 2 * m, "handshake/sum_deg_eq_2m/huge_graph", || format!("{} vs {}", sum, 2 * m));
    for i in sample(n) {
        out.api_calls += 2;
        let want = adj.out[i].len() + adj.inn[i].len() + extra(i).0;
        out.check(g.get_node_degree(ng.names[i].clone()) == Some(want), "get_node_degree/eq_model/huge_graph", || format!("position {}", i));
        let wwant: f64 = adj.out[i].iter().chain(adj.inn[i].iter()).map(|x| x.1).sum::<f64>() + extra(i).1;
        out.check(g.get_node_weighted_degree(ng.names[i].clone()) == Some(wwant), "get_node_weighted_degree/eq_model/huge_graph", || format!("position {}", i));
    }
    let dens = m as f64 / (n as f64 * (n as f64 - 1.0)) * if ng.directed { 1.0 } else { 2.0 };
    out.check(approx(g.get_density(), dens, 1e-12, 0.0), "get_density/eq_model/huge_graph", || format!("{} vs {}", g.get_density(), dens));
    // adjacency matrix: shape, number of entries, sampled rows
    out.api_calls += 1;
    match guard(|| g.get_sparse_adjacency_matrix()) {
        Err(p) => out.fail(format!("get_sparse_adjacency_matrix/panic/{}", panic_class(&p)), p),
        Ok(Err(e)) => out.fail("get_sparse_adjacency_matrix/error/huge_graph", kind_of(&e)),
        Ok(Ok(mat)) => {
            let loops = ng.edges.iter().filter(|e| e.0 == e.1).count();
            let want_nnz = if ng.directed { m } else { 2 * (m - loops) + loops };
            out.check(mat.shape() == (n, n) && mat.nnz() == want_nnz, "get_sparse_adjacency_matrix/pattern/huge_graph", || format!("shape {:?} nnz {} want {}", mat.shape(), mat.nnz(), want_nnz));
            for i in sample(n) {
                let row: BTreeMap<usize, u64> = adj.out[i].iter().map(|(j, w)| (*j, w.to_bits())).collect();
                for (j, wb) in &row {
                    let got = mat.get(i, *j).copied();
                    if got.map(f64::to_bits) != Some(*wb) {
                        out.fail("get_sparse_adjacency_matrix/entry/huge_graph", format!("({}, {}) = {:?} want {}", i, j, got, f64::from_bits(*wb)));
                        return;
                    }
                }
                let far = (i + n / 2 + 7) % n;
                if !row.contains_key(&far) {
                    out.check(mat.get(i, far).map_or(true, |v| *v == 0.0), "get_sparse_adjacency_matrix/pattern/huge_graph_extra_entry", || format!("({}, {})", i, far));
                }
            }
        }
    }
}

/// neighbour sets without self-loops (both directions)
fn nbr_sets(ng: &NormGraph) -> Vec<BTreeSet<usize>> {
    let mut s = vec![BTreeSet::new(); ng.n];
    for (i, j, _) in &ng.edges {
        if i != j {
            s[*i].insert(*j);
            s[*j].insert(*i);
        }
    }
    s
}

/// C11 on the huge graph (unweighted definitions; undirected: triangles, clustering, transitivity;
/// directed: Fagiolo clustering on the sampled nodes).
pub fn cluster(g: &G, ng: &NormGraph, out: &mut Outcome) {
    use graphrs::algorithms::cluster;
    let n = ng.n;
    let nb = nbr_sets(ng);
    let smp = sample(n);
    let smp_names: Vec<String> = smp.iter().map(|i| ng.names[*i].clone()).collect();
    if !ng.directed {
        // triangles through v = edges among its neighbours
        let tri = |v: usize| -> usize { nb[v].iter().map(|u| nb[*u].iter().filter(|w| *w > u && nb[v].contains(w)).count()).sum() };
        out.api_calls += 3;
        match guard(|| cluster::triangles(g, None)) {
            Err(p) => out.fail(format!("triangles/panic/{}", panic_class(&p)), p),
            Ok(Err(e)) => out.fail("triangles/error/huge_graph", kind_of(&e)),
            Ok(Ok(t)) => {
                out.check(t.len() == n, "triangles/keys/huge_graph", || format!("{}", t.len()));
                let mut total = 0usize;
                let mut triples = 0usize;
                for v in 0..n {
                    let want = tri(v);
                    total += want;
                    triples += nb[v].len() * nb[v].len().saturating_sub(1) / 2;
                    if t.get(&ng.names[v]).copied() != Some(want) {
                        out.fail("triangles/eq_definition/huge_graph", format!("position {}: {:?} want {}", v, t.get(&ng.names[v]), want));
                        return;
                    }
                }
                match guard(|| cluster::transitivity(g)) {
                    Ok(Ok(x)) => {
                        let want = if triples == 0 { 0.0 } else { total as f64 / triples as f64 };
                        out.check(approx(x, want, 1e-12, 1e-15), "transitivity/eq_definition/huge_graph", || format!("{} want {}", x, want));
                    }
                    Ok(Err(e)) => out.fail("transitivity/error/huge_graph", kind_of(&e)),
                    Err(p) => out.fail(format!("transitivity/panic/{}", panic_class(&p)), p),
                }
            }
        }
        match guard(|| cluster::clustering(g, false, None)) {
            Err(p) => out.fail(format!("clustering/panic/{}", panic_class(&p)), p),
            Ok(Err(e)) => out.fail("clustering/error/huge_graph", kind_of(&e)),
            Ok(Ok(c)) => {
                out.check(c.len() == n, "clustering/keys/huge_graph", || format!("{}", c.len()));
                for v in 0..n {
                    let d = nb[v].len();
                    let want = if d < 2 { 0.0 } else { 2.0 * tri(v) as f64 / (d * (d - 1)) as f64 };
                    if !c.get(&ng.names[v]).map_or(false, |x| approx(*x, want, 1e-12, 1e-15)) {
                        out.fail("clustering[undirected,unweighted]/eq_definition/huge_graph", format!("position {}: {:?} want {}", v, c.get(&ng.names[v]), want));
                        return;
                    }
                }
            }
        }
        // subset consistency
        out.api_calls += 1;
        if let Ok(Ok(t)) = guard(|| cluster::triangles(g, Some(&smp_names))) {
            out.check(t.len() == smp.len() && smp.iter().all(|v| t.get(&ng.names[*v]).copied() == Some(tri(*v))), "triangles/subset/huge_graph", || format!("{} keys", t.len()));
        } else {
            out.fail("triangles/subset/huge_graph_error", "error or panic with a subset of names");
        }
    } else {
        // Fagiolo: (A + A^T)^3_vv / (2 (d_tot (d_tot - 1) - 2 d_bi))
        let succ: Vec<BTreeSet<usize>> = {
            let mut s = vec![BTreeSet::new(); n];
            for (i, j, _) in &ng.edges {
                if i != j {
                    s[*i].insert(*j);
                }
            }
            s
        };
        let a = |i: usize, j: usize| -> f64 { succ[i].contains(&j) as u8 as f64 };
        let want_of = |v: usize| -> f64 {
            let mut t = 0.0;
            for &u in &nb[v] {
                for &w in &nb[v] {
                    if u != w {
                        t += (a(v, u) + a(u, v)) * (a(u, w) + a(w, u)) * (a(w, v) + a(v, w));
                    }
                }
            }
            // t = (A + A^T)^3_vv: every triangle is counted in both orders of (u, w)
            let dtot: f64 = nb[v].iter().map(|u| a(v, *u) + a(*u, v)).sum();
            let dbi: f64 = nb[v].iter().map(|u| a(v, *u) * a(*u, v)).sum();
            let denom = dtot * (dtot - 1.0) - 2.0 * dbi;
            if denom <= 0.0 {
                0.0
            } else {
                t / (2.0 * denom)
            }
        };
        out.api_calls += 2;
        for (what, names) in [("all", None), ("subset", Some(&smp_names[..]))] {
            match guard(|| cluster::clustering(g, false, names)) {
                Err(p) => out.fail(format!("clustering/panic/{}", panic_class(&p)), p),
                Ok(Err(e)) => out.fail("clustering/error/huge_graph", kind_of(&e)),
                Ok(Ok(c)) => {
                    out.check(c.len() == if names.is_some() { smp.len() } else { n }, "clustering/keys/huge_graph", || format!("{} ({})", c.len(), what));
                    for &v in &smp {
                        // (the hubs have thousands of neighbours: the quadratic oracle skips them)
                        if nb[v].len() > 400 {
                            continue;
                        }
                        let want = want_of(v);
                        if !c.get(&ng.names[v]).map_or(false, |x| approx(*x, want, 1e-12, 1e-15)) {
                            out.fail("clustering[directed,unweighted]/eq_definition/huge_graph", format!("position {} ({}): {:?} want {}", v, what, c.get(&ng.names[v]), want));
                            return;
                        }
                    }
                }
            }
        }
    }
}

/// C12 on the huge graph: blocks of 1000 consecutive positions (67 communities) and blocks of 128
/// (516 communities: the library's cost is proportional to communities x (nodes + edges), about
/// 8e7 here).
pub fn modularity(g: &G, ng: &NormGraph, out: &mut Outcome) {
    use graphrs::algorithms::community::partitions;
    let n = ng.n;
    for (size, settings) in [(1000usize, vec![(false, 1.0), (true, 1.5)]), (128, vec![(true, 1.0)])] {
        let block = |i: usize| i / size;
        let nb = block(n - 1) + 1;
        let mut fam: Vec<HashSet<String>> = vec![HashSet::new(); nb];
        for i in 0..n {
            fam[block(i)].insert(ng.names[i].clone());
        }
        out.api_calls += 1;
        out.check(partitions::is_partition(g, &fam), "is_partition/eq_set_algebra/huge_graph_rejected_true_partition", || "false".to_string());
        for (weighted, res) in settings {
            let wt = |w: f64| if weighted { w } else { 1.0 };
            let m: f64 = ng.edges.iter().map(|e| wt(e.2)).sum();
            let (mut lc, mut outc, mut inc) = (vec![0.0; nb], vec![0.0; nb], vec![0.0; nb]);
            for (i, j, w) in &ng.edges {
                if block(*i) == block(*j) {
                    lc[block(*i)] += wt(*w);
                }
                outc[block(*i)] += wt(*w);
                inc[block(*j)] += wt(*w);
            }
            let want: f64 = (0..nb).map(|c| if ng.directed { lc[c] / m - res * outc[c] * inc[c] / (m * m) } else { lc[c] / m - res * ((outc[c] + inc[c]) / (2.0 * m)).powi(2) }).sum();
            out.api_calls += 1;
            match guard(|| partitions::modularity(g, &fam, weighted, Some(res))) {
                Err(p) => out.fail(format!("modularity/panic/{}", panic_class(&p)), p),
                Ok(Err(e)) => out.fail("modularity/true_partition_rejected/huge_graph", kind_of(&e)),
                Ok(Ok(q)) => {
                    out.check(approx(q, want, 1e-9, 1e-12), "modularity/eq_formula/huge_graph", || format!("{} want {} ({} communities, weighted {}, resolution {})", q, want, nb, weighted, res));
                }
            }
        }
        if size == 1000 {
            // a node listed twice and one omitted
            let mut bad = fam.clone();
            bad[0].insert(ng.names[n - 1].clone());
            bad[nb - 1].remove(&ng.names[n - 2]);
            out.api_calls += 1;
            out.check(!partitions::is_partition(g, &bad), "is_partition/eq_set_algebra/huge_graph_accepted_overlap_plus_omission", || "true".to_string());
        }
    }
}

/// C15 on the huge graph.
pub fn derived(g: &G, ng: &NormGraph, out: &mut Outcome) {
    let n = ng.n;
    let index: std::collections::HashMap<&str, usize> = ng.names.iter().enumerate().map(|(i, s)| (s.as_str(), i)).collect();
    let ix = |s: &String| -> usize { index.get(s.as_str()).copied().unwrap_or(usize::MAX) };
    let canon = |gr: &G, flip: bool| -> Vec<(usize, usize, u64)> {
        let mut v: Vec<_> = gr.get_all_edges().iter().map(|e| if flip { key(ng, ix(&e.v), ix(&e.u), e.weight) } else { key(ng, ix(&e.u), ix(&e.v), e.weight) }).collect();
        v.sort();
        v
    };
    let mut all: Vec<(usize, usize, u64)> = ng.edges.iter().map(|(i, j, w)| key(ng, *i, *j, *w)).collect();
    all.sort();
    // every position above 30 000 plus every third below: more than 2^15 members
    let keep = |i: usize| i >= 30_000 || i % 3 == 0;
    let mut s: Vec<String> = (0..n).filter(|i| keep(*i)).map(|i| ng.names[i].clone()).collect();
    s.push(ABSENT.to_string());
    out.api_calls += 1;
    match guard(|| g.get_subgraph(&s)) {
        Err(p) => out.fail(format!("get_subgraph/panic/{}", panic_class(&p)), p),
        Ok(sub) => {
            let want_nodes: Vec<&String> = (0..n).filter(|i| keep(*i)).map(|i| &ng.names[i]).collect();
            out.check(sub.get_all_node_names() == want_nodes, "get_subgraph/result/node_list/huge_graph", || format!("{} nodes, want {}", sub.number_of_nodes(), want_nodes.len()));
            let mut want: Vec<(usize, usize, u64)> = ng.edges.iter().filter(|(i, j, _)| keep(*i) && keep(*j)).map(|(i, j, w)| key(ng, *i, *j, *w)).collect();
            want.sort();
            let got = canon(&sub, false);
            out.check(got == want, "get_subgraph/result/edge_multiset/huge_graph", || format!("{} edges, want {}", got.len(), want.len()));
            let p = sub.number_of_nodes() - 1;
            out.check(sub.get_node_by_index(&p).map(|x| x.name.clone()) == Some(ng.names[n - 1].clone()), "get_subgraph/result/position/huge_graph", || format!("position {}", p));
        }
    }
    // short requests with repeated names around the first hub
    for req in [vec![0usize, 1, 0, 2], vec![2, 0, 1, 0, 0, n / 2], vec![n - 1, 0, n - 1]] {
        let names: Vec<String> = req.iter().map(|i| ng.names[*i].clone()).collect();
        let set: BTreeSet<usize> = req.iter().copied().collect();
        out.api_calls += 1;
        match guard(|| g.get_subgraph(&names)) {
            Err(p) => out.fail(format!("get_subgraph/panic/{}", panic_class(&p)), format!("request {:?}: {}", req, p)),
            Ok(sub) => {
                let mut want: Vec<(usize, usize, u64)> = ng.edges.iter().filter(|(i, j, _)| set.contains(i) && set.contains(j)).map(|(i, j, w)| key(ng, *i, *j, *w)).collect();
                want.sort();
                let got = canon(&sub, false);
                out.check(got == want && sub.number_of_nodes() == set.len(), "get_subgraph/result/edge_multiset/huge_graph_short_request", || format!("request {:?}: {} nodes {} edges, want {} nodes {} edges", req, sub.number_of_nodes(), got.len(), set.len(), want.len()));
            }
        }
    }
    out.api_calls += 1;
    match guard(|| g.reverse()) {
        Err(p) => out.fail(format!("reverse/panic/{}", panic_class(&p)), p),
        Ok(Err(e)) => {
            out.check(!ng.directed && kind_of(&e) == "WrongMethod", "reverse/error/kind", || kind_of(&e));
        }
        Ok(Ok(rev)) => {
            out.check(ng.directed, "reverse/kind_guard/undirected_accepted", || "Ok".to_string());
            out.check(canon(&rev, true) == all && rev.number_of_nodes() == n, "reverse/result/edge_multiset/huge_graph", || format!("{} edges", rev.number_of_edges()));
        }
    }
    out.api_calls += 1;
    match guard(|| g.set_all_edge_weights(0.75)) {
        Err(p) => out.fail(format!("set_all_edge_weights/panic/{}", panic_class(&p)), p),
        Ok(rw) => {
            let mut want: Vec<(usize, usize, u64)> = ng.edges.iter().map(|(i, j, _)| key(ng, *i, *j, 0.75)).collect();
            want.sort();
            out.check(canon(&rw, false) == want && rw.number_of_nodes() == n, "set_all_edge_weights/result/edge_multiset/huge_graph", || format!("{} edges", rw.number_of_edges()));
        }
    }
    out.check(canon(g, false) == all && g.number_of_nodes() == n, "source/unchanged/huge_graph", || "the source graph changed".to_string());
}

// ------------------------------------------------------------------------------------------------
// histories on the huge graph

/// A deterministic script of 14 operations over an 8-name universe (see `history`), biased towards
/// the first hub: the same pair is hit repeatedly in both orientations with lighter and heavier
/// weights, nodes are re-added, batches fail half-way.
pub fn huge_ops(seed: u64) -> Vec<crate::model::Op> {
    use crate::model::{Op, W};
    let mut s = seed | 1;
    let mut next = |m: u64| -> u64 {
        s = mix(s, 0xabcd);
        s % m
    };
    let mut ops = vec![];
    for _ in 0..14 {
        let mut pick = |next: &mut dyn FnMut(u64) -> u64| -> u8 { if next(2) == 0 { 0 } else { next(8) as u8 } };
        let (u, v) = (pick(&mut next), next(8) as u8);
        let (u, v) = if next(3) == 0 { (v, u) } else { (u, v) };
        let w = W(next(32) as u8);
        ops.push(match next(10) {
            0 => Op::AddNode(u, Some(next(100) as i32 - 50)),
            1 => Op::AddEdgeTuple(u, v),
            2 => Op::AddEdges(vec![(u, v, w), (v, next(8) as u8, W(next(32) as u8)), (next(8) as u8, next(8) as u8, W(3))]),
            3 => Op::AddEdgeTuples(vec![(u, v), (next(8) as u8, next(8) as u8)]),
            _ => Op::AddEdge(u, v, w),
        });
    }
    ops
}

/// A universal hub: node 0 is adjacent to every other node; the nodes are created in numeric
/// order but the hub's edges arrive in another order (`kind`): 4 = sorted as text ("1", "10",
/// "100", ... "9999"; 10 000 nodes), 5 = descending, 6 = even then odd, 7 = first and last in place
/// and everything between them reversed (1 500 nodes each). Position in the hub's adjacency list
/// and node index are then related in a different way each time.
pub fn star_graph(kind: u8, directed: bool) -> NormGraph {
    if kind == 8 {
        // not a star: the complete graph on 1 100 nodes (every node is a hub of 1 099 neighbours,
        // all adjacency lists have the same length), weights 1 + (i-j)^2 / 4
        return crate::graphcase::dense_structured(1_100, directed, 1);
    }
    let n: usize = if kind == 4 { 10_000 } else { 1_500 };
    let mut leaves: Vec<usize> = (1..n).collect();
    match kind {
        4 => leaves.sort_by_key(|i| i.to_string()),
        5 => leaves.reverse(),
        6 => leaves.sort_by_key(|i| (i % 2, *i)),
        _ => {
            let k = leaves.len();
            leaves[1..k - 1].reverse();
        }
    }
    // leaf -> hub for one edge in three when directed, so that both lists grow
    let edges = leaves.iter().enumerate().map(|(k, l)| if directed && k % 3 == 2 { (*l, 0, ((k % 12) as f64 + 1.0) / 4.0) } else { (0, *l, ((k % 12) as f64 + 1.0) / 4.0) }).collect();
    NormGraph { directed, multi: false, loops: false, n, names: (0..n).map(|i| i.to_string()).collect(), order: (0..n).collect(), edges, weighted: true }
}

/// One very large batch on an almost empty graph: `add_edges` with thousands of edges over new
/// names, in which one element repeats an earlier pair (reversed) and a later one is a self-loop,
/// both followed by names that exist nowhere else. Whether the batch stops there, and what it
/// leaves behind, is the model's business (C01: "a batch add applies exactly the prefix that
/// precedes the first failing edge").
fn bulk_history(case: &crate::model::HistCase, aspect: Aspect, out: &mut Outcome) {
    use crate::model::*;
    let spec = SpecBits::from_index(case.spec);
    let k = [5000usize, 4096, 4097, 8192][case.universe as usize % 4];
    reset_edge_pool();
    let mut g = G::new(spec.to_specs());
    let mut m = Model::new(spec);
    // two nodes exist beforehand; everything else is new to the graph
    for (i, name) in ["b0", "b1"].iter().enumerate() {
        g.add_node(mk_node(name, Some(i as i32)));
        m.add_node(name, Some(i as i32));
    }
    let mut batch: Vec<(String, String, f64)> = (0..k).map(|i| (format!("b{}", 2 * i), format!("b{}", 2 * i + 1), ((i % 16) as f64 + 1.0) / 4.0)).collect();
    let dup = batch[k / 4].clone();
    batch[k / 2] = (dup.1.clone(), dup.0.clone(), 7.5);
    batch[3 * k / 4] = (format!("b{}", 6 * k), format!("b{}", 6 * k), 1.0);
    let objs: Vec<_> = batch.iter().map(|(u, v, w)| mk_edge(u, v, *w)).collect();
    let esa: Vec<(String, String, f64, Option<i32>)> = batch.iter().zip(objs.iter()).map(|((u, v, w), e)| (u.clone(), v.clone(), *w, e.attributes)).collect();
    let mr = m.add_edges_a(&esa);
    let gr = res_kind(&g.add_edges(objs));
    out.api_calls += 1;
    out.class(format!("bulk_batch_of_{}_edges_{}", k, mr));
    if mr != gr {
        if aspect == Aspect::Mutations {
            out.fail(format!("add_edges/outcome/bulk_model_{}_graph_{}", mr, gr), format!("a batch of {} edges returned {} but the specs dictate {}", k, gr, mr));
        } else {
            out.class("diverged_from_model");
        }
        return;
    }
    finish_history(&g, &m, spec, aspect, out);
}

#[derive(Clone, Copy, PartialEq, Eq, Debug)]
pub enum Aspect {
    Mutations,
    Reads,
    Traversal,
}

/// A history on the huge graph: the procedural graph is loaded under the case's GraphSpecs, then
/// the case's operations run over the universe [hub 0, hub 1, the neighbour attached to hub 0
/// last, the one attached first, one from the middle of its list, the last node, position 2^16, a
/// new name]. The reference model is the ordinary one; the final state is compared by linear-time
/// procedures according to `aspect`.
pub fn history(case: &crate::model::HistCase, aspect: Aspect, out: &mut Outcome) {
    use crate::model::*;
    let spec = SpecBits::from_index(case.spec);
    if case.huge == 3 {
        return bulk_history(case, aspect, out);
    }
    let ng = match case.huge {
        1 | 2 => crate::oracle::procedural_graph(HUGE_N as usize, 0x5eed + spec.directed as u64, spec.directed, true),
        k => star_graph(k, spec.directed),
    };
    let n = ng.n;
    reset_edge_pool();
    let mut g = G::new(spec.to_specs());
    let mut m = Model::new(spec);
    g.add_nodes((0..n).map(|i| mk_node(&ng.names[i], Some(i as i32))).collect());
    m.nodes = (0..n).map(|i| (ng.names[i].clone(), Some(i as i32))).collect();
    for (i, j, w) in &ng.edges {
        let e = mk_edge(&ng.names[*i], &ng.names[*j], *w);
        m.edges.push(MEdge { u: ng.names[*i].clone(), v: ng.names[*j].clone(), w: *w, a: e.attributes });
        if let Err(e) = g.add_edge(e) {
            out.fail(format!("add_edge/outcome/huge_graph_prelude_{}", kind_of(&e)), format!("edge ({}, {}) of the prelude rejected", i, j));
            return;
        }
    }
    // hub 0's neighbours in the order in which they were attached
    let nb0: Vec<usize> = ng.edges.iter().filter(|(i, j, _)| *i == 0 || *j == 0).map(|(i, j, _)| if *i == 0 { *j } else { *i }).collect();
    let universe = vec![
        ng.names[0].clone(),
        ng.names[1].clone(),
        ng.names[*nb0.last().unwrap()].clone(),
        ng.names[nb0[0]].clone(),
        ng.names[nb0[nb0.len() / 2]].clone(),
        ng.names[n - 1].clone(),
        ng.names[if n > 65_536 { 65_536 } else { nb0[nb0.len() / 3] }].clone(),
        "zz-new".to_string(),
    ];
    set_universe_names(Some(universe));
    out.class(format!("huge_history_hub_with_{}_neighbours", if nb0.len() > 1024 { "more_than_1024" } else { "up_to_1024" }));
    for op in &case.ops {
        let (mr, gr) = apply(op, 1, &mut m, &mut g);
        out.api_calls += 1;
        if mr != gr {
            if aspect == Aspect::Mutations {
                out.fail(format!("{}/outcome/huge_graph_model_{}_graph_{}", crate::props::c01::op_name(op), mr, gr), format!("{:?} returned {} but the specs dictate {}", op, gr, mr));
            } else {
                out.class("diverged_from_model");
            }
            set_universe_names(None);
            return;
        }
    }
    set_universe_names(None);
    out.class(format!("huge_history_kind_{}", spec.label()));
    if m.ev.duplicate > 0 {
        out.class("huge_history_duplicate_on_hub_pair");
    }
    finish_history(&g, &m, spec, aspect, out);
}

fn finish_history(g: &G, m: &crate::model::Model, spec: crate::model::SpecBits, aspect: Aspect, out: &mut Outcome) {
    use crate::model::*;
    // the final state as a NormGraph (positions from the model)
    let index: std::collections::HashMap<&str, usize> = m.nodes.iter().enumerate().map(|(i, x)| (x.0.as_str(), i)).collect();
    let fin = NormGraph {
        directed: spec.directed,
        multi: spec.multi,
        loops: true,
        n: m.nodes.len(),
        names: m.names(),
        order: (0..m.nodes.len()).collect(),
        edges: m.edges.iter().map(|e| (index[e.u.as_str()], index[e.v.as_str()], e.w)).collect(),
        weighted: m.edges.iter().all(|e| !e.w.is_nan()),
    };
    match aspect {
        Aspect::Mutations => {
            out.api_calls += 2;
            let gn: Vec<&String> = g.get_all_node_names();
            out.check(gn.len() == fin.n && gn.iter().zip(&fin.names).all(|(a, b)| *a == b), "history/node_list/huge_graph", || format!("{} nodes, model {}", gn.len(), fin.n));
            let ga: Vec<Option<i32>> = g.get_all_nodes().iter().map(|x| x.attributes).collect();
            out.check(ga == m.nodes.iter().map(|x| x.1).collect::<Vec<_>>(), "history/node_attributes/huge_graph", || "node attributes differ".to_string());
            let ge = graph_edge_multiset_a(g);
            let me = m.edge_multiset_a();
            if ge != me {
                let k = ge.iter().zip(&me).position(|(a, b)| a != b).unwrap_or(ge.len().min(me.len()));
                out.fail("history/edge_multiset/huge_graph", format!("{} edges, model {}; first difference: graph {:?} model {:?}", ge.len(), me.len(), ge.get(k), me.get(k)));
            }
        }
        Aspect::Reads => {
            let mut o2 = Outcome::new();
            core_reads(g, &fin, &mut o2);
            out.api_calls += o2.api_calls;
            for f in o2.failures {
                // (re-added nodes carry new attributes; core_reads expects Some(position))
                if f.sig.starts_with("get_node/eq_model") {
                    continue;
                }
                out.fail(format!("after_history/{}", f.sig), f.msg);
            }
        }
        Aspect::Traversal => {
            if fin.weighted {
                crate::coherent::traversal_check(g, m, out);
                if out.failures.is_empty() {
                    distances(g, &fin, "single_source", out);
                }
            } else {
                out.class("mixed_weights_skipped");
            }
        }
    }
}
