//! Graph cases for the algorithm properties: built by construction (normalisation instead of
//! rejection), 8 kinds, shape catalogue, several weight modes, shuffled insertion order.

use crate::model::{mk_edge, mk_node, SpecBits, G};
use proptest::collection::vec;
use proptest::prelude::*;
use serde::{Deserialize, Serialize};

#[derive(Clone, Debug, PartialEq, Eq, Serialize, Deserialize)]
pub struct GraphCase {
    /// bit0 directed, bit1 multi-edge, bit2 self-loops
    pub kind: u8,
    pub n: u8,
    /// 0 = nodes inserted in index order, otherwise seed of a permutation
    pub perm: u32,
    /// 0 = none; see `shape_edges`
    pub shape: u8,
    /// random edges (i mod n, j mod n, raw weight)
    pub edges: Vec<(u8, u8, u8)>,
    /// 0 unweighted, 1 positive dyadic k/4, 2 non-negative dyadic with zeros, 3 tie-rich {1,2},
    /// 4 positive non-dyadic floats, 5 tiny dyadic (k+1)*2^-40, 6 large dyadic (k+1)*2^30,
    /// 7 large non-dyadic (hundreds to thousands), 8 symmetric around one {0.5, 1.5, 0.25, 1.75}, 9 signed {+-0.5, +-1, +-2, 1.5}
    pub wmode: u8,
    /// when > 0 the fields n / shape / edges are ignored and a sparse graph with this many nodes is
    /// generated procedurally from `big_seed` (ring + 2 chords per node; single-edge, no loops)
    #[serde(default)]
    pub big_n: u32,
    #[serde(default)]
    pub big_seed: u64,
}

#[derive(Clone, Debug)]
pub struct NormGraph {
    pub directed: bool,
    pub multi: bool,
    pub loops: bool,
    pub n: usize,
    pub names: Vec<String>,
    /// insertion order (a permutation of 0..n)
    pub order: Vec<usize>,
    pub edges: Vec<(usize, usize, f64)>,
    pub weighted: bool,
}

pub fn node_name(i: usize) -> String {
    // a bijection on 0..256 whose order differs from the index order
    format!("n{:03}", (i * 37 + 11) % 256)
}

/// Names made of 'a', 'b' and separator characters, in shortlex order shuffled by a bijection:
/// "a", "-", "a-b", "b-a-", "a b" ... Concatenating two of them with a separator is ambiguous
/// ("a" + "-" + "b-a" == "a-b" + "-" + "a"), which is what breaks keys built by string formatting.
pub fn separator_name(i: usize, sep: char, n: usize) -> String {
    // use the shortest strings that suffice for n nodes (short names collide most), shuffled
    let (m, mult) = if n <= 12 { (12, 5) } else if n <= 39 { (39, 7) } else if n <= 120 { (120, 7) } else { (363, 101) };
    let k = (i * mult + 3) % m;
    // k-th non-empty string over a 3-letter alphabet in shortlex order
    let alphabet = ['a', 'b', sep];
    let mut len = 1;
    let mut first = 0;
    let mut count = 3;
    while k >= first + count {
        first += count;
        count *= 3;
        len += 1;
    }
    let mut r = k - first;
    let mut chars = vec![' '; len];
    for p in (0..len).rev() {
        chars[p] = alphabet[r % 3];
        r /= 3;
    }
    chars.into_iter().collect()
}

/// the name of node `i` under the naming style selected by the case's `perm` field
pub fn styled_name(i: usize, perm: u32, n: usize) -> String {
    match perm % 8 {
        5 | 4 => separator_name(i, '-', n),
        6 => separator_name(i, ',', n),
        7 => separator_name(i, ' ', n),
        _ => node_name(i),
    }
}

pub fn decode_weight(wmode: u8, r: u8) -> f64 {
    match wmode {
        0 => f64::NAN,
        1 => ((r % 32) as f64 + 1.0) / 4.0,
        2 => {
            // zeros of both signs: -0.0 is an ordinary zero weight (e.g. -ln(1.0))
            if r % 16 == 8 {
                -0.0
            } else {
                ((r % 8) as f64) / 4.0
            }
        }
        3 => 1.0 + (r % 2) as f64,
        4 => 0.1 + ((r % 64) as f64) * 0.137,
        5 => ((r % 32) as f64 + 1.0) * (2.0f64).powi(-40),
        6 => ((r % 32) as f64 + 1.0) * (2.0f64).powi(30),
        7 => 100.1 + ((r % 32) as f64) * 101.2,
        // weights symmetric around 1: sums coincide with counts, means with 1
        8 => [0.5, 1.5, 0.25, 1.75][(r % 4) as usize],
        // near-ties at the scale of the tolerance constants used inside the library (1e-10 for
        // Louvain's gain comparison, relative to terms of about 1..2 here; 1e-7 for its default
        // threshold): 1 + k * 0.8 * tol, so that
        // values one step apart are "equal within the tolerance" while values two steps apart
        // are not (Louvain's undirected gain doubles both the weight and, since the tolerance is
        // relative to the terms, the tolerance)
        // (the shape edges, r = 3, 6, 9, get k = 1, 2, 3)
        10 => 1.0 + (((r / 3) % 8) as f64) * 0.8 * if (r / 24) % 2 == 1 { 1e-7 } else { 1e-10 },
        // mixed magnitudes in one graph: one weight in four is (k+1) * 2^-70, the others k/4. A tiny
        // weight added to a distance of order one is absorbed (d + w == d) although it is positive;
        // the sum of the tiny weights along any path stays below half an ulp of 0.25, so every
        // distance is the same float whatever the order of the additions
        11 => {
            if r % 4 == 0 {
                (((r / 4) % 8) as f64 + 1.0) * (2.0f64).powi(-70)
            } else {
                ((r % 32) as f64 + 1.0) / 4.0
            }
        }
        // amounts in the smallest unit of a currency: (k+1) * 2^60 (about 1e18): adding 1 to such a
        // number does not change it
        12 => ((r % 4) as f64 + 1.0) * (2.0f64).powi(60),
        // non-dyadic weights of the order of 1e4 and 1e6 (prices, populations, byte counts)
        13 => 10_007.3 + ((r % 32) as f64) * 1_013.7,
        14 => 1_000_003.1 + ((r % 32) as f64) * 100_019.7,
        // neighbouring doubles: 1, 1 + 2^-51, 1 + 2^-50. Routes of two or three edges have lengths in
        // [2, 4), where one ulp is 2^-51, so every such sum is exact and two routes may differ by one
        // ulp exactly: strictly different lengths that any relative tolerance would call equal.
        // (Sums of four or more such weights need not be exact: see `ulp_exact`.)
        15 => 1.0 + ((r % 3) as f64) * (2.0f64).powi(-51),
        // subnormal weights ((k+1) * 2^-1074 .. : probabilities of long chains, underflowed products):
        // positive, ratios between them are ordinary numbers, but 1/w overflows
        16 => ((r % 32) as f64 + 1.0) * f64::from_bits(1 << ((r / 32) % 4)),
        // weights near the top of the double range ((k+1) * 2^1000): ratios are ordinary numbers, any
        // product of two overflows (the shapes that scale a weight by a small count stay finite)
        17 => ((r % 32) as f64 + 1.0) * (2.0f64).powi(1000),
        // signed weights (trust / distrust networks): sums can cancel exactly
        _ => [1.0, -1.0, 0.5, -0.5, 2.0, -2.0, 1.5, 1.0][(r % 8) as usize],
    }
}

/// Shape 13: a bundle of 2^k equally short routes and one bypass that ties with it. Node 0 is the
/// source s, node 1 the sink x, node 2 the bypass node w; the other nodes form k = (n-3)/2 stages of
/// two interchangeable nodes, consecutive stages completely connected, all with weight 1; s -> w
/// has weight k and w -> x weight 1, exactly the length k + 1 of every route through the stages.
/// w then carries one shortest s-x path out of 2^k + 1: shares of path counts far below the
/// resolution of an f64 next to 1 (from 107 nodes on).
pub fn bundle_with_bypass(n: usize) -> Vec<(usize, usize, f64)> {
    let mut e = vec![];
    if n < 5 {
        return e;
    }
    let k = (n - 3) / 2;
    let stage = |i: usize| [3 + 2 * i, 4 + 2 * i];
    for a in stage(0) {
        e.push((0, a, 1.0));
    }
    for i in 1..k {
        for a in stage(i - 1) {
            for b in stage(i) {
                e.push((a, b, 1.0));
            }
        }
    }
    for a in stage(k - 1) {
        e.push((a, 1, 1.0));
    }
    e.push((0, 2, k as f64));
    e.push((2, 1, 1.0));
    e
}

/// A long chain 0 - 1 - ... - (n-1) whose weights follow a slowly varying law of the position
/// (`law`): 0: ln(i+2), 1: 1 + ln ln(i+3), 2: sqrt(i+1), 3: (i+1)^0.1, 4: i+1, 5: ln(n-i+1)
/// (decreasing). Local-move heuristics make progress along such a chain one node at a time.
pub fn chain_structured(n: usize, directed: bool, law: u64) -> NormGraph {
    let w = |i: usize| -> f64 {
        let x = i as f64;
        match law % 6 {
            0 => (x + 2.0).ln(),
            1 => 1.0 + (x + 3.0).ln().ln(),
            2 => (x + 1.0).sqrt(),
            3 => (x + 1.0).powf(0.1),
            4 => x + 1.0,
            _ => ((n - i) as f64 + 1.0).ln(),
        }
    };
    NormGraph {
        directed,
        multi: false,
        loops: false,
        n,
        names: (0..n).map(|i| format!("c{:04}", (i * 389 + 7) % 5003)).collect(),
        order: (0..n).collect(),
        edges: (1..n).map(|i| (i - 1, i, w(i - 1))).collect(),
        weighted: true,
    }
}

/// A hub with n - 1 neighbours (more than 2^11 from 2 050 nodes on) plus a link i -> i + 1 from
/// every third leaf. Directed: `variant` 0 points the hub's edges outwards (the leaves do not link
/// back), 1 inwards. Unweighted.
pub fn hub_structured(n: usize, directed: bool, variant: u64) -> NormGraph {
    let mut edges = vec![];
    for i in 1..n {
        edges.push(if variant % 2 == 0 { (0, i, f64::NAN) } else { (i, 0, f64::NAN) });
    }
    for i in (3..n.saturating_sub(1)).step_by(3) {
        edges.push((i, i + 1, f64::NAN));
    }
    NormGraph { directed, multi: false, loops: false, n, names: (0..n).map(|i| format!("h{:04}", (i * 389 + 7) % 5003)).collect(), order: (0..n).collect(), edges, weighted: false }
}

/// A complete graph on up to 1000 nodes whose weights follow a law of the positions (`family`):
/// 0: (i-j)^2 (every node is strictly improved by each of its predecessors in turn: n - 1
/// decrease-key operations on the last node), 1: 1 + |i-j|^2 / 4, 2: sqrt-like concave 8 + |i-j|
/// (the direct edge always wins), 3: (i-j)^2 from the far end (improvements in descending order).
/// All values are dyadic and the sums exact.
pub fn dense_structured(n: usize, directed: bool, family: u64) -> NormGraph {
    let mut edges = Vec::with_capacity(n * n);
    for i in 0..n {
        for j in 0..n {
            if i == j || (!directed && j < i) {
                continue;
            }
            let d = (i as f64 - j as f64).abs();
            let w = match family % 4 {
                0 => d * d,
                1 => 1.0 + d * d / 4.0,
                2 => 8.0 + d,
                _ => ((n - 1 - i.min(j)) as f64 + 1.0) * d * d / 4.0,
            };
            edges.push((i, j, w));
        }
    }
    NormGraph { directed, multi: false, loops: false, n, names: (0..n).map(|i| format!("r{:04}", (i * 389 + 7) % 2003)).collect(), order: (0..n).collect(), edges, weighted: true }
}

/// structured edges mixed into a case
pub fn shape_edges(shape: u8, n: usize) -> Vec<(usize, usize)> {
    let mut e = vec![];
    if n == 0 {
        return e;
    }
    match shape {
        1 => (1..n).for_each(|i| e.push((i - 1, i))),                      // path
        2 => (0..n).for_each(|i| e.push((i, (i + 1) % n))),                // cycle
        3 => (1..n).for_each(|i| e.push((0, i))),                          // star
        4 => (0..n).for_each(|i| (0..n).filter(|j| *j != i).for_each(|j| e.push((i, j)))), // complete
        5 => {
            // two cliques joined by a bridge
            let h = n / 2;
            for a in 0..h {
                for b in (a + 1)..h {
                    e.push((a, b));
                    e.push((b, a));
                }
            }
            for a in h..n {
                for b in (a + 1)..n {
                    e.push((a, b));
                    e.push((b, a));
                }
            }
            if h > 0 && h < n {
                e.push((h - 1, h));
            }
        }
        6 => {
            // grid with 3 columns
            for i in 0..n {
                if i % 3 != 2 && i + 1 < n {
                    e.push((i, i + 1));
                }
                if i + 3 < n {
                    e.push((i, i + 3));
                }
            }
        }
        7 => {
            // disjoint triangles (directed: 3-cycles) plus isolated remainder
            let mut i = 0;
            while i + 2 < n {
                e.push((i, i + 1));
                e.push((i + 1, i + 2));
                e.push((i + 2, i));
                i += 3;
            }
        }
        8 => {
            // cycle of cycles: nested strongly connected components joined one way
            let mut i = 0;
            let mut prev: Option<usize> = None;
            while i + 1 < n {
                let k = 2 + (i % 3);
                let end = (i + k).min(n);
                for a in i..end {
                    let b = if a + 1 < end { a + 1 } else { i };
                    e.push((a, b));
                }
                if let Some(p) = prev {
                    e.push((p, i));
                }
                prev = Some(end - 1);
                i = end;
            }
        }
        9 => {
            // layered DAG / bipartite: many equal-length paths
            for i in 0..n {
                for j in 0..n {
                    if j / 3 == i / 3 + 1 {
                        e.push((i, j));
                    }
                }
            }
        }
        10 => {
            // circulant (regular): i -> i+1, i+2
            for i in 0..n {
                e.push((i, (i + 1) % n));
                e.push((i, (i + 2) % n));
            }
        }
        11 => {
            // tight clusters (triangles) with satellites: every fifth node is a satellite tied by
            // one edge each to the first node of three different triangles, i.e. it has several
            // equally (or, with near-tie weights, almost equally) attractive communities to join,
            // and whichever it joins stays a community of its own
            let sats = n / 5;
            let t = (n - sats) / 3;
            for j in 0..t {
                let i = 3 * j;
                e.push((i, i + 1));
                e.push((i + 1, i + 2));
                e.push((i + 2, i));
            }
            if t >= 3 {
                for q in 0..sats {
                    let u = 3 * t + q;
                    if u >= n {
                        break;
                    }
                    for d in 0..3 {
                        e.push((u, 3 * ((q + d) % t)));
                    }
                }
            }
        }
        12 => {
            // two disjoint complete blocks of equal size (the second takes the odd node): a
            // disconnected graph in which every node has as many neighbours as a connected graph
            // of that size could give it
            let h = n / 2;
            for (lo, hi) in [(0, h), (h, n)] {
                for a in lo..hi {
                    for b in (a + 1)..hi {
                        e.push((a, b));
                        e.push((b, a));
                    }
                }
            }
        }
        _ => {}
    }
    e
}

pub const N_SHAPES: u8 = 14;

fn permutation(seed: u32, n: usize) -> Vec<usize> {
    let mut v: Vec<usize> = (0..n).collect();
    if seed == 0 {
        return v;
    }
    let mut s = seed as u64;
    for i in (1..n).rev() {
        s = s.wrapping_mul(6364136223846793005).wrapping_add(1442695040888963407);
        let j = ((s >> 33) as usize) % (i + 1);
        v.swap(i, j);
    }
    v
}

impl GraphCase {
    pub fn spec(&self) -> SpecBits {
        SpecBits::kind(self.kind & 1 == 1, self.kind & 2 == 2, self.kind & 4 == 4)
    }

    pub fn norm(&self) -> NormGraph {
        if self.big_n > 0 && self.shape == 1 {
            return chain_structured(self.big_n.min(5000) as usize, self.kind & 1 == 1, self.big_seed);
        }
        if self.big_n > 0 && self.shape == 2 {
            return hub_structured(self.big_n.min(5000) as usize, self.kind & 1 == 1, self.big_seed);
        }
        if self.big_n > 0 && self.shape == 4 {
            return dense_structured(self.big_n.min(1000) as usize, self.kind & 1 == 1, self.big_seed);
        }
        if self.big_n > 0 {
            let mut ng = crate::oracle::procedural_graph(self.big_n as usize, self.big_seed, self.kind & 1 == 1, self.wmode != 0);
            // keep the kind's flags (the generated edges never need them)
            ng.multi = self.kind & 2 == 2;
            ng.loops = self.kind & 4 == 4;
            if ng.loops && ng.n > 4 {
                // self-loops on the first hub and on an ordinary node
                let w = if ng.weighted { 0.75 } else { f64::NAN };
                ng.edges.push((0, 0, w));
                ng.edges.push((ng.n / 2, ng.n / 2, w));
            }
            if self.wmode != 0 {
                // weights in the case's own weight mode
                for (k, e) in ng.edges.iter_mut().enumerate() {
                    e.2 = decode_weight(self.wmode, (crate::core::mix(self.big_seed, k as u64) % 251) as u8);
                }
            }
            return ng;
        }
        let s = self.spec();
        let n = self.n as usize;
        let mut edges: Vec<(usize, usize, f64)> = vec![];
        let mut seen = std::collections::HashSet::new();
        let mut push = |i: usize, j: usize, w: f64, edges: &mut Vec<(usize, usize, f64)>| {
            if i == j && !s.loops {
                return;
            }
            let key = if !s.directed && i > j { (j, i) } else { (i, j) };
            if !s.multi && !seen.insert(key) {
                return;
            }
            edges.push((i, j, w));
        };
        if n > 0 && self.shape == 13 {
            for (i, j, w) in bundle_with_bypass(n) {
                push(i, j, if self.wmode == 0 { f64::NAN } else { w }, &mut edges);
            }
        }
        if n > 0 {
            for (k, (i, j)) in shape_edges(self.shape, n).into_iter().enumerate() {
                // weights of shape edges: deterministic from position, tie-friendly
                let w = decode_weight(self.wmode, (k % 3) as u8 * 3 + 3);
                push(i, j, w, &mut edges);
            }
            for (i, j, r) in &self.edges {
                push(*i as usize % n, *j as usize % n, decode_weight(self.wmode, *r), &mut edges);
            }
            // reflexive graphs (a similarity matrix with a unit diagonal): one case in four of the
            // kinds that allow self-loops puts a loop on every node
            if s.loops && (self.perm / 32) % 4 == 3 {
                for i in 0..n {
                    push(i, i, decode_weight(self.wmode, 3), &mut edges);
                }
            }
            // ... and another one in four a loop on the first node only (the centre of the star,
            // path end, clique member, ... of the structured shapes)
            if s.loops && (self.perm / 32) % 4 == 2 {
                push(0, 0, decode_weight(self.wmode, 6), &mut edges);
            }
        }
        NormGraph {
            directed: s.directed,
            multi: s.multi,
            loops: s.loops,
            n,
            names: (0..n).map(|i| styled_name(i, self.perm, n)).collect(),
            order: permutation(self.perm, n),
            edges,
            weighted: self.wmode != 0,
        }
    }
}

impl NormGraph {
    pub fn spec(&self) -> SpecBits {
        SpecBits::kind(self.directed, self.multi, self.loops)
    }
    pub fn build(&self) -> G {
        self.build_a().0
    }
    /// the graph and, per entry of `edges`, the attributes of the edge object that was added
    pub fn build_a(&self) -> (G, Vec<Option<i32>>) {
        crate::model::reset_edge_pool();
        let mut g = G::new(self.spec().to_specs());
        for i in &self.order {
            g.add_node(mk_node(&self.names[*i], Some(*i as i32)));
        }
        let mut attrs = Vec::with_capacity(self.edges.len());
        for (i, j, w) in &self.edges {
            let e = mk_edge(&self.names[*i], &self.names[*j], *w);
            attrs.push(e.attributes);
            g.add_edge(e).unwrap_or_else(|e| panic!("harness bug: normalised edge rejected: {:?}", e.kind));
        }
        (g, attrs)
    }
    pub fn index_of(&self, name: &str) -> Option<usize> {
        self.names.iter().position(|x| x == name)
    }
    pub fn has_parallel(&self) -> bool {
        let mut seen = std::collections::HashSet::new();
        self.edges.iter().any(|(i, j, _)| {
            let key = if !self.directed && i > j { (*j, *i) } else { (*i, *j) };
            !seen.insert(key)
        })
    }
    pub fn has_loop(&self) -> bool {
        self.edges.iter().any(|(i, j, _)| i == j)
    }
}

/// `kinds`: admissible kind bytes; `n`: node-count range; `max_edges(n)`; `wmodes`: admissible weight modes
pub fn graph_strategy(
    kinds: &'static [u8],
    n_lo: u8,
    n_hi: u8,
    max_edges: fn(usize) -> usize,
    wmodes: &'static [u8],
    shape_weight: u32,
) -> BoxedStrategy<GraphCase> {
    (proptest::sample::select(kinds), n_lo..=n_hi, proptest::sample::select(wmodes))
        .prop_flat_map(move |(kind, n, wmode)| {
            let me = max_edges(n as usize);
            (
                Just(kind),
                Just(n),
                Just(wmode),
                prop_oneof![1 => Just(0u32), 3 => any::<u32>()],
                prop_oneof![(10 - shape_weight.min(9)) => Just(0u8), shape_weight.clamp(1, 9) => 1u8..N_SHAPES],
                vec((any::<u8>(), any::<u8>(), any::<u8>()), 0..=me),
            )
        })
        .prop_map(|(kind, n, wmode, perm, shape, edges)| GraphCase { kind, n, perm, shape, edges, wmode, big_n: 0, big_seed: 0 })
        .boxed()
}

pub const ALL_KINDS: [u8; 8] = [0, 1, 2, 3, 4, 5, 6, 7];
pub const SINGLE_KINDS: [u8; 4] = [0, 1, 4, 5];
pub const UNDIRECTED_SINGLE: [u8; 2] = [0, 4];

/// all graphs on `n` labelled nodes of the given kind with at most one edge per ordered/unordered
/// pair (and optionally loops), unweighted or with weight chosen by position — used for exhaustive blocks
pub fn enumerate_small(kind: u8, n: u8, wmode: u8) -> Vec<GraphCase> {
    let s = SpecBits::kind(kind & 1 == 1, kind & 2 == 2, kind & 4 == 4);
    let mut pairs: Vec<(u8, u8)> = vec![];
    for i in 0..n {
        for j in 0..n {
            if i == j && !s.loops {
                continue;
            }
            if !s.directed && i > j {
                continue;
            }
            pairs.push((i, j));
        }
    }
    let mut out = vec![];
    if pairs.len() > 16 {
        return out;
    }
    for mask in 0u32..(1u32 << pairs.len()) {
        let edges: Vec<(u8, u8, u8)> = pairs
            .iter()
            .enumerate()
            .filter(|(k, _)| mask >> k & 1 == 1)
            .map(|(k, (i, j))| (*i, *j, (k as u8 % 3) * 3 + 3))
            .collect();
        out.push(GraphCase { kind, n, perm: if mask % 2 == 1 { 7 } else { 0 }, shape: 0, edges, wmode, big_n: 0, big_seed: 0 });
    }
    out
}

/// A `NormGraph` view of an existing graph, built from get_all_node_names() and get_all_edges() alone.
pub fn ng_from_graph<A: Clone + Send + Sync>(g: &graphrs::Graph<String, A>) -> NormGraph {
    let names: Vec<String> = g.get_all_node_names().into_iter().cloned().collect();
    let idx = |x: &String| names.iter().position(|y| y == x).expect("edge endpoint is a node");
    let edges: Vec<(usize, usize, f64)> = g.get_all_edges().iter().map(|e| (idx(&e.u), idx(&e.v), e.weight)).collect();
    let weighted = !edges.is_empty() && edges.iter().all(|e| !e.2.is_nan());
    NormGraph { directed: g.specs.directed, multi: g.specs.multi_edges, loops: g.specs.self_loops || edges.iter().any(|e| e.0 == e.1), n: names.len(), order: (0..names.len()).collect(), names, edges, weighted }
}

/// Counts a human would pick as a threshold, block size or capacity: powers of two and round
/// decimal numbers (and their multiples), each with its two neighbours.
pub const ROUND_COUNTS: [u16; 58] = [
    2, 3, 4, 5, 7, 8, 9, 10, 11, 15, 16, 17, 31, 32, 33, 50, 63, 64, 65, 99, 100, 101, 127, 128, 129, 200, 255, 256, 257, 499, 500, 501, 511, 512, 513, 999, 1000, 1001, 1023, 1024, 1025, 1999, 2000, 2001, 2047, 2048,
    2049, 2500, 3000, 3001, 4000, 4095, 4096, 4097, 5000, 6000, 8000, 8192,
];

/// A small multigraph in which a few node pairs (or self-loops) carry a *large* number of
/// parallel edges (`ROUND_COUNTS`): one edge per event is how interaction / transaction
/// multigraphs are stored, and code that processes a pair's edge list in blocks or with a
/// capacity switches behaviour at such counts.
#[derive(Clone, Debug, PartialEq, Eq, Serialize, Deserialize)]
pub struct HeavyCase {
    /// kind bits as in `GraphCase` (bit 0 directed, bit 2 self-loops); always a multi-edge graph
    pub kind: u8,
    /// 1..=4 nodes
    pub n: u8,
    /// (u, v, index into ROUND_COUNTS, weight byte); weights are constant within a group when the
    /// byte is even, cycle through dyadic values otherwise
    pub groups: Vec<(u8, u8, u8, u8)>,
    /// 0 unweighted, 1 dyadic
    pub wmode: u8,
}

impl HeavyCase {
    pub fn norm(&self) -> NormGraph {
        let n = (self.n as usize).clamp(1, 4);
        let directed = self.kind & 1 == 1;
        let loops = self.kind & 4 == 4;
        let mut edges = vec![];
        for (u, v, c, wb) in &self.groups {
            let (i, j) = (*u as usize % n, *v as usize % n);
            if i == j && !loops {
                continue;
            }
            let count = ROUND_COUNTS[*c as usize % ROUND_COUNTS.len()] as usize;
            for k in 0..count {
                let r = if wb % 2 == 0 { *wb } else { wb.wrapping_add((k % 7) as u8) };
                edges.push((i, j, decode_weight(if self.wmode == 0 { 0 } else { 1 }, r)));
            }
        }
        NormGraph { directed, multi: true, loops, n, names: (0..n).map(node_name).collect(), order: permutation(self.kind as u32 / 8, n), edges, weighted: self.wmode != 0 }
    }
}

pub fn heavy_strategy() -> BoxedStrategy<HeavyCase> {
    (any::<u8>(), 1u8..=4, proptest::collection::vec((any::<u8>(), any::<u8>(), any::<u8>(), any::<u8>()), 1..=2), 0u8..=1).prop_map(|(kind, n, groups, wmode)| HeavyCase { kind, n, groups, wmode }).boxed()
}

/// graphs whose node count sits around a power of two (or another plausible internal threshold),
/// up to the largest representable size: size-dependent code paths switch behaviour there
pub const BOUNDARY_SIZES: [u8; 18] = [15, 16, 17, 20, 21, 31, 32, 33, 63, 64, 65, 100, 127, 128, 129, 192, 254, 255];

pub fn boundary_graph_strategy(kinds: &'static [u8], max_edges: fn(usize) -> usize, wmodes: &'static [u8], shape_weight: u32, max_n: u8) -> BoxedStrategy<GraphCase> {
    let sizes: Vec<u8> = BOUNDARY_SIZES.iter().copied().filter(|n| *n <= max_n).collect();
    proptest::sample::select(sizes).prop_flat_map(move |n| graph_strategy(kinds, n, n, max_edges, wmodes, shape_weight)).boxed()
}

/// procedurally generated large graphs: log-uniform node count in lo..=hi
pub fn big_graph_strategy(kinds: &'static [u8], lo: u32, hi: u32, wmodes: &'static [u8]) -> BoxedStrategy<GraphCase> {
    (proptest::sample::select(kinds), 0u16..1000, any::<u64>(), proptest::sample::select(wmodes))
        .prop_map(move |(kind, r, big_seed, wmode)| {
            let n = (lo as f64 * (hi as f64 / lo as f64).powf(r as f64 / 999.0)).round() as u32;
            GraphCase { kind, n: 0, perm: 0, shape: 0, edges: vec![], wmode, big_n: n.max(1), big_seed }
        })
        .boxed()
}

/// For properties that enumerate *all* shortest paths: replaces the shapes whose number of
/// shortest paths grows exponentially or polynomially with the size (layered, complete, joined
/// cliques, disjoint cliques, 3-column grid, circulant) by a cycle once the graph has more than `max_n` nodes. (The API returns every shortest
/// path, so such inputs need memory exponential in n; that is not a defect.)
pub fn tame_path_counts(mut g: GraphCase, max_n: u8) -> GraphCase {
    if g.n > max_n && matches!(g.shape, 4 | 5 | 6 | 9 | 10 | 12 | 13) {
        g.shape = 2;
    }
    // the bundle of shape 13 doubles its path count every two nodes: 2^12 routes at 27 nodes
    if g.shape == 13 && g.n > 27 {
        g.n = 27;
    }
    g
}
