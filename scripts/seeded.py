#!/usr/bin/env python3
"""Confirm and record a seeded change produced by an independent sub-agent, then run checks on it.

usage: seeded.py confirm <ID> <worktree> [--name NAME]   # verify suite/demo both ways in the worktree, copy to /verif/seeded/<NAME>/
       seeded.py run <NAME> [IDS...] [--tier quick]      # apply /verif/seeded/<NAME>/patch.diff to /repo, run checks, restore
"""
import json, os, shutil, subprocess, sys, time
VERIF = os.path.dirname(os.path.dirname(os.path.abspath(__file__)))
REPO = "/repo"

def run(cmd, cwd=None, timeout=7200):
    return subprocess.run(cmd, cwd=cwd, shell=True, stdout=subprocess.PIPE, stderr=subprocess.STDOUT, text=True, timeout=timeout)

def demo(wt):
    shutil.copy(os.path.join(wt, "SEED", "demo_test.rs"), os.path.join(wt, "tests", "zz_seed_demo.rs"))
    r = run("CARGO_NET_OFFLINE=true cargo test --offline --test zz_seed_demo 2>&1 | tail -15", cwd=wt)
    os.remove(os.path.join(wt, "tests", "zz_seed_demo.rs"))
    ok = "test result: ok" in r.stdout
    failed = "test result: FAILED" in r.stdout
    return ok, failed, r.stdout[-600:]

def confirm(pid, wt, name):
    seed = os.path.join(wt, "SEED")
    patch = os.path.join(seed, "patch.diff")
    assert os.path.exists(patch), "no patch.diff"
    # the worktree must have exactly the patch applied
    cur = run("git diff -- src", cwd=wt).stdout
    if cur.strip() != open(patch).read().strip():
        print("NOTE: worktree diff differs from patch.diff; resetting worktree to the patch")
        run("git checkout -- src", cwd=wt)
        r = run(f"git apply {patch}", cwd=wt)
        assert r.returncode == 0, r.stdout
    res = {}
    ok, failed, out = demo(wt)
    res["demo_with_change"] = "FAILED (as required)" if failed else ("passed (NOT as required)" if ok else "did not run: " + out)
    r = run(f"python3 {VERIF}/scripts/baseline_off.py {wt}")
    res["suite_with_change"] = r.stdout.strip().splitlines()[0] if r.stdout.strip() else "?"
    suite_ok = r.returncode == 0
    r = run(f"git apply -R {patch}", cwd=wt)
    assert r.returncode == 0, r.stdout
    ok2, failed2, out2 = demo(wt)
    res["demo_without_change"] = "passed (as required)" if ok2 else "FAILED (NOT as required): " + out2
    run(f"git apply {patch}", cwd=wt)
    # applies to /repo HEAD?
    r = run(f"git apply --check {patch}", cwd=REPO)
    res["applies_to_repo_head"] = r.returncode == 0
    accepted = failed and suite_ok and ok2 and res["applies_to_repo_head"]
    res["accepted"] = accepted
    print(json.dumps(res, indent=1))
    if accepted:
        dst = os.path.join(VERIF, "seeded", name)
        os.makedirs(dst, exist_ok=True)
        shutil.copy(patch, os.path.join(dst, "patch.diff"))
        shutil.copy(os.path.join(seed, "demo_test.rs"), os.path.join(dst, "demo_test.rs"))
        if os.path.exists(os.path.join(seed, "notes.md")):
            shutil.copy(os.path.join(seed, "notes.md"), os.path.join(dst, "agent_notes.md"))
        meta = {"property": pid, "name": name, "source": "independent sub-agent given only the property text and a scratch worktree",
                "repo_commit": run("git rev-parse --short HEAD", cwd=REPO).stdout.strip(),
                "needs_to_manifest": "see agent_notes.md", "confirmed": res, "checks": {}}
        json.dump(meta, open(os.path.join(dst, "meta.json"), "w"), indent=1)
        print("recorded in", dst)
    return accepted

def run_checks(name, ids, tier):
    dst = os.path.join(VERIF, "seeded", name)
    meta = json.load(open(os.path.join(dst, "meta.json")))
    if not ids:
        ids = [meta["property"]]
    if run("git status --porcelain", cwd=REPO).stdout.strip():
        print("refusing: /repo has uncommitted changes"); sys.exit(2)
    r = run(f"git apply {dst}/patch.diff", cwd=REPO)
    assert r.returncode == 0, r.stdout
    try:
        for pid in ids:
            t0 = time.time()
            r = run(f"./check {pid} --tier {tier} --no-evidence", cwd=VERIF)
            caught = r.returncode == 1 and ("VIOLATION property=" + pid) in r.stdout
            fl = [l.strip() for l in r.stdout.splitlines() if l.strip().startswith("failure")]
            mc = [l.strip() for l in r.stdout.splitlines() if l.strip().startswith("minimal case")]
            meta["checks"][f"{pid}:{tier}"] = {"caught": caught, "exit": r.returncode, "seconds": round(time.time() - t0, 1), "failure": fl[0][:300] if fl else "", "minimal_case": mc[0][:400] if mc else "",
                                               "verif_commit": run("git rev-parse --short HEAD", cwd=VERIF).stdout.strip()}
            print(pid, tier, "CAUGHT" if caught else f"MISSED (exit {r.returncode})", f"{time.time()-t0:.0f}s", fl[0][:160] if fl else "")
    finally:
        run("git checkout -- .", cwd=REPO)
    json.dump(meta, open(os.path.join(dst, "meta.json"), "w"), indent=1)

a = sys.argv[1:]
if a[0] == "confirm":
    name = a[a.index("--name") + 1] if "--name" in a else a[1]
    sys.exit(0 if confirm(a[1], a[2], name) else 1)
elif a[0] == "run":
    tier = a[a.index("--tier") + 1] if "--tier" in a else "quick"
    ids = [x for x in a[2:] if x.startswith("C")]
    run_checks(a[1], ids, tier)
