#!/usr/bin/env python3
"""Run the repository's test-suite with the verif feature OFF and compare with BASELINE.json.
Exit 0 iff every baseline stable_pass test passes."""
import json, re, subprocess, sys, os
repo = sys.argv[1] if len(sys.argv) > 1 else "/repo"
env = dict(os.environ, CARGO_NET_OFFLINE="true")
p = subprocess.run(["cargo", "test", "--workspace", "--no-fail-fast", "--offline", "--lib", "--tests"],
                   cwd=repo, env=env, stdout=subprocess.PIPE, stderr=subprocess.STDOUT, text=True)
binary = None
passed, failed = set(), set()
for line in p.stdout.splitlines():
    m = re.match(r"\s*Running (unittests )?(\S+)", line)
    if m:
        path = m.group(2)
        binary = None if m.group(1) else os.path.splitext(os.path.basename(path))[0]
        continue
    m = re.match(r"test (\S+) \.\.\. (ok|FAILED|ignored)", line)
    if m:
        name = "graphrs::" + (binary + "::" if binary else "") + m.group(1)
        (passed if m.group(2) == "ok" else failed if m.group(2) == "FAILED" else set()).add(name)
base = json.load(open("/root/.vp/BASELINE.json"))
want = set(base["stable_pass"])
missing = sorted(want - passed)
print(f"passed={len(passed)} failed={len(failed)} baseline={len(want)} baseline_not_passing={len(missing)}")
for t in missing:
    print("  NOT PASSING:", t)
extra_fail = sorted(failed - set(base.get("always_fail", [])))
for t in extra_fail:
    print("  NEW FAILURE:", t)
if not passed:
    print(p.stdout[-3000:])
sys.exit(0 if not missing else 1)
