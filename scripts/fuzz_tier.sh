#!/bin/sh
# usage: fuzz_tier.sh <target> <runs> <seed>
# Coverage-guided stage of a thorough tier: builds the libFuzzer target against /repo's working tree,
# runs it from a copy of the committed seed corpus, relays VIOLATION lines printed by the target
# (the semantic oracle runs inside the target), and leaves statistics in work/fuzz-stats-<target>.json.
# exit 0 = no violation, 1 = violation, 2 = could not build/run.
ROOT="$(cd "$(dirname "$0")/.." && pwd)"
T="$1"; RUNS="${2:-1000000}"; SEED="${3:-0}"
MAXLEN=2048; if [ "$T" = "graph_history" ]; then MAXLEN=512; fi
SEED=$((SEED + 1))   # libFuzzer treats 0 as "random"
export VERIF_ROOT="$ROOT" CARGO_NET_OFFLINE=true
cd "$ROOT/fuzz" || exit 2
if ! cargo +nightly fuzz --version >/dev/null 2>&1; then echo "cargo-fuzz / nightly not available"; exit 2; fi
W="$ROOT/work/fuzz-$T-$$"
mkdir -p "$W/corpus" && cp corpus/"$T"/* "$W/corpus/" 2>/dev/null
if ! cargo +nightly fuzz build -s none --fuzz-dir . "$T" >"$W/build.log" 2>&1; then
  echo "FUZZ BUILD FAILED"; tail -20 "$W/build.log"; rm -rf "$W"; exit 2
fi
cargo +nightly fuzz run -s none --fuzz-dir . "$T" "$W/corpus" -- -runs="$RUNS" -seed="$SEED" -len_control=0 -max_len=$MAXLEN -print_final_stats=1 -artifact_prefix="$W/" >"$W/out.log" 2>&1
RC=$?
grep -E "^  failure |^VIOLATION " "$W/out.log"
EXEC=$(grep -E "stat::number_of_executed_units" "$W/out.log" | awk '{print $2}')
NEW=$(grep -E "stat::new_units_added" "$W/out.log" | awk '{print $2}')
CORP=$(ls "$W/corpus" | wc -l)
VIOL=0; if grep -q "^VIOLATION " "$W/out.log"; then VIOL=1; fi
printf '{"target":"%s","runs_requested":%s,"seed":%s,"executed_units":%s,"new_units_added":%s,"corpus_files_at_end":%s,"violations":%s,"exit_code":%s}\n' "$T" "$RUNS" "$SEED" "${EXEC:-0}" "${NEW:-0}" "$CORP" "$VIOL" "$RC" > "$ROOT/work/fuzz-stats-$T.json"
echo "fuzz stage $T: executed ${EXEC:-0} inputs, ${NEW:-0} new corpus units, exit $RC"
rm -rf "$W"
if [ "$VIOL" = "1" ]; then exit 1; fi
if [ "$RC" != "0" ]; then
  # a crash that is not one of our oracle aborts (e.g. stack overflow, OOM, timeout)
  echo "fuzz stage ended abnormally without an oracle violation (exit $RC)"; exit 2
fi
exit 0
