#!/usr/bin/env python3
"""Writes /verif/MANIFEST.json from the table below (kept in one place so it stays valid)."""
import json, os, sys
ROOT = os.path.dirname(os.path.dirname(os.path.abspath(__file__)))

# id -> (level category, technique, level text, level note, design ref)
CHECKS = {
 "C01": ("exploration", "model-based stateful PBT (proptest histories + exhaustive length<=3 block) against a reference model of GraphSpecs semantics",
         "Every add_* call of every generated history is compared with a small reference model written from the property text: outcome kind, ordered node list, node attributes, edge multiset including each stored edge's attributes, and an unchanged full fingerprint after a rejected call. All 96 specs x all histories of length <= 3 over a 6-op alphabet are enumerated; longer histories are sampled. Exploration, not proof.",
         "trusts the reference model (harness/src/model.rs); names are Strings, node and edge attributes i32 (two edge objects in three carry a unique tag); also scripted histories on a 66 003-node graph, on universal hubs, on the complete graph of 1 100 nodes and single batches of 4 096..8 192 edges", "DESIGN.md §4 C01"),
 "C02": ("exploration", "model-based PBT: one coherence oracle cross-checks every read API (and, via the hook, the private indexes) against the model after each step",
         "After every (second) step of a generated history all read APIs are queried for every ordered pair / node / subset of a 7-name universe incl. an absent name and compared with the model's node list and edge multiset; the name-keyed and position-keyed stores are compared list by list through the snapshot hook.",
         "trusts the model and the read-only snapshot hook; accepts either error kind where two apply; every returned edge is compared including its attributes; sampled reads on the 66 003-node graph and after scripted histories on large graphs", "DESIGN.md §4 C02"),
 "C03": ("exploration", "model-based PBT over uniformly (un)weighted histories; white-box invariant on the traversal lists plus differential check of weighted algorithms against oracles on get_all_edges()",
         "After every step the traversal lists (hook) must hold exactly the stored neighbours with the bit-exact minimum stored weight; weighted Dijkstra/betweenness/closeness on the final graph must equal oracles computed from get_all_edges() alone.",
         "trusts the snapshot hook and the oracle library; histories are uniformly weighted or unweighted as the property states", "DESIGN.md §4 C03"),
 "C04": ("exploration", "PBT over generated graphs of all 8 kinds with a brute-force / Floyd-Warshall / path-count oracle; exhaustive block over all graphs on <= 3 nodes",
         "Reported keys, distances, path validity, completeness and uniqueness of the shortest-path set (positive dyadic weights) and first_only are compared with an oracle that enumerates simple paths (n <= 10) or counts paths on the shortest-path DAG (n > 20, parallel path). Also: route lengths one ulp apart (neighbouring-double weights while sums stay exact) and a recurrence protocol (exactly 2^8-1, 2^8, 2^16-1, 2^16 searches on one thread between two checked searches).",
         "trusts harness/src/oracle.rs; completeness only asserted for strictly positive exactly-summable weights", "DESIGN.md §4 C04"),
 "C05": ("exploration", "PBT with a definition-level oracle (explicit shortest-path enumeration / sigma products) for betweenness, all rescaling combinations",
         "betweenness_centrality is compared (1e-9) with the sum over ordered pairs of the fraction of shortest paths through v, for weighted/unweighted x normalized/raw on graphs of all kinds incl. n <= 2 and n > 20. Also: route lengths one ulp apart (neighbouring-double weights, checked while all sums stay exact).",
         "trusts the oracle; paths are node sequences; order-independent results are also compared between String names, a user-defined name type (lossy Display, colliding Hash) and i64 names; the pool (1, 3, 16, 24, 64 threads) is a generated input; every n in 21..=1200 (thorough ..=9000) on a closed-form family", "DESIGN.md §4 C05"),
 "C06": ("exploration", "PBT with a Floyd-Warshall oracle for closeness (incoming distances, WF scaling)",
         "closeness_centrality is compared (1e-12) with the statement's formula evaluated on an independent distance matrix for weighted/unweighted x wf_improved on graphs of all kinds.",
         "trusts the oracle; positive weights; name-type independence as in C05; the pool is a generated input; two hierarchies of > 2^16 nodes with closed-form values", "DESIGN.md §4 C06"),
 "C07": ("exploration", "differential testing across rayon pool sizes 1..16, 24, 32, 64 with perturbing load and concurrent readers, a long-lived-thread protocol for 8- and 16-bit wrap-around counters; bit-exact comparison with the serial result",
         "The five parallel functions are run inside pools of every size 1..=16 and of 24, 32, 64 threads, repeatedly and under contention, and must reproduce the serial (pool size 1) result bit for bit incl. path list order; concurrent read-only callers must see the same. Schedules are sampled, not enumerated.",
         "rayon's scheduler is not controlled; an order-dependent reduction or serial/parallel divergence is caught reliably, a single-interleaving race may be missed", "DESIGN.md §4 C07"),
 "C08": ("exploration", "metamorphic PBT: relations R1-R7 between entry points and option combinations, no external oracle",
         "all_pairs = multi_source = single_source; target, cutoff, with_paths, first_only restrict but never change the unrestricted answer; symmetry and triangle inequality; get_all_shortest_paths_involving against an interior filter on the all-pairs answer.",
         "the unrestricted all-paths answer is the reference (its own correctness is C04); with mixed-magnitude weights (absorbed tiny weights) only keys and distances are compared", "DESIGN.md §4 C08"),
 "C09": ("exploration", "model-based PBT over histories and constructed graphs: counting oracle on the edge multiset, handshake identities, entry-wise adjacency matrix",
         "Counts, degrees (self-loop = 2), weighted variants, per-node vs all-nodes maps, handshake identities on the API's own outputs, degree centrality, density and every entry of the sparse adjacency matrix are compared with counts over the model's edge list.",
         "trusts the model; weighted aggregates asserted only when every edge is weighted (dyadic)", "DESIGN.md §4 C09"),
 "C10": ("exploration", "PBT with a transitive-closure oracle; results compared as sets of sets, each call repeated 3x for hash-order dependence",
         "connected / weak / strong components, node_connected_component, breadth_first_search and bfs_equal_size_partitions are checked against reachability classes of the edge list on graphs stressed towards nested SCCs, long cycles and many small components. Also two fixed graphs with one breadth-first level of more than 2^16 nodes.",
         "trusts the closure oracle; 'bounded size' read as floor(n/k)+1", "DESIGN.md §4 C10"),
 "C11": ("exploration", "PBT with dense-matrix definition oracles (triangles, Fagiolo, Onnela, Lind squares); subset-consistency and refusal clauses",
         "clustering (4 variants), average_clustering, triangles, transitivity, generalized_degree and square_clustering are compared with matrix definitions on the loop-free graph, for None and generated subsets; multi-edge / directed refusals must be WrongMethod. Also subnormal and 2^1000-scale weights (unmixed).",
         "trusts the oracles; weighted values asserted only when the largest weight is unambiguous", "DESIGN.md §4 C11"),
 "C12": ("exploration", "PBT over partition families built by mutation of a true partition; set-algebra and formula oracles",
         "is_partition must equal the set-algebra predicate on families with overlaps, omissions, both at once, foreign names and duplicated blocks; modularity must equal the statement's formula (1e-9) or be NotAPartition.",
         "trusts the formula transcription in harness/src/props/c12.rs", "DESIGN.md §4 C12"),
 "C13": ("exploration", "PBT with a step-budget hook turning non-termination into a shrinkable failure; validity predicates over the returned levels",
         "louvain_partitions must return within a step budget, every level must be a partition into non-empty sets, levels must be nested, harness-computed modularity must be non-decreasing (single-edge graphs), louvain_communities = last level. Also hubs of 2 099 neighbours (outwards, inwards, undirected).",
         "termination is a budget (20000 loop iterations), not a proof; trusts the tick hook", "DESIGN.md §4 C13"),
 "C14": ("exploration", "round-trip PBT over arbitrary Unicode names (no control chars) and arbitrary non-NaN f64 bit patterns",
         "write_graphml_string -> read_graphml_string (and the file variants) must reproduce ordered names, directedness and the edge multiset with bit-identical weights.",
         "control characters excluded as the property states", "DESIGN.md §4 C14"),
 "C15": ("exploration", "model-based PBT: expected derived graph computed from the source model; result must pass the C02 and C03 oracles; source fingerprint unchanged",
         "get_subgraph, reverse (twice = identity), set_all_edge_weights and to_single_edges are compared with results computed from the source's node and edge lists for all 96 specs and arbitrary subsets / weights.",
         "trusts the model and the coherence oracle", "DESIGN.md §4 C15"),
 "C16": ("exploration", "PBT plus exhaustive small block plus seeded statistical cells with an 8-sigma bound; structural validity of every generated graph",
         "complete_graph for every n <= 60 and sampled larger n; fast_gnp_random_graph structure for n <= 300 and six probability classes down to 1e-307; mean edge count and pair support over hundreds of seeds per (n,p,d) cell; invalid p rejected; karate club against the Zachary list. Also per-pair coverage over fixed seeds at 261 and 300 nodes.",
         "statistical bounds (mean edge count per cell, per-node marginals in the sparse regime) have false-alarm probability < 1e-14 per cell / node", "DESIGN.md §4 C16"),
 "C17": ("exploration", "repeated-execution differential testing: in-process repeats, rayon pools of 1/3/16 threads and separate worker processes must agree on canonical results",
         "Seeded Louvain and the seeded generator must return identical canonical results across 5 repeated calls, three pool sizes and another process, incl. graphs whose weights are spaced at a fraction of the library's tie tolerance and non-dyadic weights up to 1e6; non-randomised algorithms must agree up to 1e-9.",
         "worker processes are long-lived (one per harness thread), not one per case", "DESIGN.md §4 C17"),
 "C18": ("exploration", "PBT with validity predicates derived from the documented iteration (norm, sign, fixed-point residual bound) and metamorphic monotonicity in (max_iter, tolerance)",
         "Every Ok vector must be non-negative, unit-norm and move by at most the tolerance-derived bound under one more documented step x -> normalise(x + A^T x); Err must be PowerIterationFailedConvergence; Ok must persist under larger budgets.",
         "the residual bound 2 ||M||_F n tol / max(1, ||Mx|| - ||M||_F n tol) is sound but loose; large graphs are also evaluated at the loosest tolerances where only entries, signs and the unit norm are checked", "DESIGN.md §4 C18"),
 "C19": ("fault_enumeration", "grammar-based generation of GraphML with a known expected graph, 24 injected fault kinds, and single-point corruptions enumerated exhaustively on 3 fixed documents and sampled elsewhere",
         "Totality (no panic / hang) for valid, faulty and corrupted documents; valid documents must yield the C01 model of their node and edge elements with the declared directedness; required-attribute faults must yield ReadError; every Ok graph must pass the C02/C03 oracles.",
         "the valid subset is the one described in harness/src/xmlgen.rs", "DESIGN.md §4 C19"),
 "C20": ("exploration", "table-driven PBT: ~100 public calls x 8 kinds x degenerate shapes x argument selectors under catch_unwind, in a checked and a release build (worker process), with outcome comparison",
         "No call may panic or hang in either profile; absent names and unsupported graph kinds must come back through Err/None; outcomes and values must agree between the overflow-checked and the release build.",
         "weighted flags only with weighted graphs; functions without an error channel only get existing names", "DESIGN.md §4 C20"),
}
NOT_YET = {}

def main():
    props = [json.loads(l) for l in open(os.path.join(ROOT, "properties.jsonl"))]
    checks, na = [], []
    for p in props:
        pid = p["id"]
        if pid in CHECKS:
            cat, tech, text, note, ref = CHECKS[pid]
            checks.append({
                "property_id": pid,
                "quick_cmd": f"./check {pid} --tier quick",
                "thorough_cmd": f"./check {pid} --tier thorough",
                "evidence_file": f"/verif/evidence/{pid}.json",
                "replay_cmd_template": f"./check {pid} --replay {{path}}",
                "engine": "gverif",
                "level_claimed": {"category": cat, "text": text, "design_ref": ref},
                "level_note": note,
                "technique": tech,
            })
        else:
            na.append({"property_id": pid, "reason": NOT_YET.get(pid, "check not built yet in this session (work in progress; the technique applies, see DESIGN.md)")})
    hooks_commits = [l.strip() for l in open(os.path.join(ROOT, "scripts", "hook_commits.txt")) if l.strip()] if os.path.exists(os.path.join(ROOT, "scripts", "hook_commits.txt")) else []
    m = {
        "version": 1,
        "setup_cmd": "cd /verif/harness && CARGO_NET_OFFLINE=true cargo build --offline --profile chk && CARGO_NET_OFFLINE=true cargo build --offline --profile rel",
        "hooks": {
            "guard": "cargo feature `verif` of graphrs (off by default)",
            "enable": "the harness depends on graphrs = { path = \"../../repo\", features = [\"adjacency_matrix\", \"verif\"] }; ./check rebuilds it from /repo's working tree on every invocation",
            "baseline_off_cmd": "cd /repo && cargo test --workspace --no-fail-fast --offline --lib --tests",
            "source_commits": hooks_commits,
            "add_only": True,
        },
        "engines": [
            {"name": "gverif", "path": "/verif/harness", "serves_properties": sorted(CHECKS.keys()),
             "kind_free_text": "Rust binary: proptest 1.11 TestRunner on 16 threads with fixed seeds derived from VERIF_SEED, exhaustive small-scope blocks, explicit oracles, shrinking to JSON replay files, known-findings file, watchdog"},
        ],
        "checks": checks,
        "not_applicable": na,
        "notes": "exit 0 = held on everything explored (KNOWN-FINDING lines for recorded defects), 1 = VIOLATION property=<id> replay=<path>, 2 = could not build/run or inconclusive (watchdog). Known findings and fixed defects: /verif/known_findings.txt.",
    }
    json.dump(m, open(os.path.join(ROOT, "MANIFEST.json"), "w"), indent=1)
    print("wrote MANIFEST.json with", len(checks), "checks,", len(na), "not_applicable")

main()
