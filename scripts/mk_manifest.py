#!/usr/bin/env python3
"""Writes /verif/MANIFEST.json from the table below (kept in one place so it stays valid)."""
import json, os, sys
ROOT = os.path.dirname(os.path.dirname(os.path.abspath(__file__)))

# id -> (level category, technique, level text, level note, design ref)
CHECKS = {
 "C01": ("exploration", "model-based stateful PBT (proptest histories + exhaustive length<=3 block) against a reference model of GraphSpecs semantics",
         "Every add_* call of every generated history is compared with a 20-line reference model written from the property text: outcome kind, ordered node list, attributes, edge multiset, and an unchanged full fingerprint after a rejected call. All 96 specs x all histories of length <= 3 over a 6-op alphabet are enumerated; longer histories are sampled. Exploration, not proof.",
         "trusts the reference model (harness/src/model.rs); T=String, A=i32 only", "DESIGN.md §4 C01"),
 "C02": ("exploration", "model-based PBT: one coherence oracle cross-checks every read API (and, via the hook, the private indexes) against the model after each step",
         "After every (second) step of a generated history all read APIs are queried for every ordered pair / node / subset of a 7-name universe incl. an absent name and compared with the model's node list and edge multiset; the name-keyed and position-keyed stores are compared list by list through the snapshot hook.",
         "trusts the model and the read-only snapshot hook; accepts either error kind where two apply", "DESIGN.md §4 C02"),
 "C03": ("exploration", "model-based PBT over uniformly (un)weighted histories; white-box invariant on the traversal lists plus differential check of weighted algorithms against oracles on get_all_edges()",
         "After every step the traversal lists (hook) must hold exactly the stored neighbours with the bit-exact minimum stored weight; weighted Dijkstra/betweenness/closeness on the final graph must equal oracles computed from get_all_edges() alone.",
         "trusts the snapshot hook and the oracle library; histories are uniformly weighted or unweighted as the property states", "DESIGN.md §4 C03"),
}
NOT_YET = {}

def main():
    props = [json.loads(l) for l in open(os.path.join(ROOT, "properties.jsonl"))]
    checks, na = [], []
    for p in props:
        pid = p["id"]
        if pid in CHECKS:
            cat, tech, text, note, ref = CHECKS[pid]
            checks.append({
                "property_id": pid,
                "quick_cmd": f"./check {pid} --tier quick",
                "thorough_cmd": f"./check {pid} --tier thorough",
                "evidence_file": f"/verif/evidence/{pid}.json",
                "replay_cmd_template": f"./check {pid} --replay {{path}}",
                "engine": "gverif",
                "level_claimed": {"category": cat, "text": text, "design_ref": ref},
                "level_note": note,
                "technique": tech,
            })
        else:
            na.append({"property_id": pid, "reason": NOT_YET.get(pid, "check not built yet in this session (work in progress; the technique applies, see DESIGN.md)")})
    hooks_commits = [l.strip() for l in open(os.path.join(ROOT, "scripts", "hook_commits.txt")) if l.strip()] if os.path.exists(os.path.join(ROOT, "scripts", "hook_commits.txt")) else []
    m = {
        "version": 1,
        "setup_cmd": "cd /verif/harness && CARGO_NET_OFFLINE=true cargo build --offline --profile chk && CARGO_NET_OFFLINE=true cargo build --offline --profile rel",
        "hooks": {
            "guard": "cargo feature `verif` of graphrs (off by default)",
            "enable": "the harness depends on graphrs = { path = \"../../repo\", features = [\"adjacency_matrix\", \"verif\"] }; ./check rebuilds it from /repo's working tree on every invocation",
            "baseline_off_cmd": "cd /repo && cargo test --workspace --no-fail-fast --offline --lib --tests",
            "source_commits": hooks_commits,
            "add_only": True,
        },
        "engines": [
            {"name": "gverif", "path": "/verif/harness", "serves_properties": sorted(CHECKS.keys()),
             "kind_free_text": "Rust binary: proptest 1.11 TestRunner on 16 threads with fixed seeds derived from VERIF_SEED, exhaustive small-scope blocks, explicit oracles, shrinking to JSON replay files, known-findings file, watchdog"},
        ],
        "checks": checks,
        "not_applicable": na,
        "notes": "exit 0 = held on everything explored (KNOWN-FINDING lines for recorded defects), 1 = VIOLATION property=<id> replay=<path>, 2 = could not build/run or inconclusive (watchdog). Known findings and fixed defects: /verif/known_findings.txt.",
    }
    json.dump(m, open(os.path.join(ROOT, "MANIFEST.json"), "w"), indent=1)
    print("wrote MANIFEST.json with", len(checks), "checks,", len(na), "not_applicable")

main()
