#!/usr/bin/env python3
"""Sensitivity protocol: apply one small semantic mutation to /repo, run the relevant quick checks,
expect exit 1 (VIOLATION), and restore /repo. Not a registered command.

usage: mutants.py [--only NAME[,NAME]] [--props C04,C05] [--with-tests] [--list]
Each mutant is (name, file, old, new, [properties expected to catch it]).
"""
import subprocess, sys, os, time, json

REPO = "/repo"
VERIF = os.path.dirname(os.path.dirname(os.path.abspath(__file__)))

M = []
def mut(name, file, old, new, props, count=1):
    M.append(dict(name=name, file=file, old=old, new=new, props=props, count=count))

# ---- shortest paths
mut("dijkstra_tie_drop", "src/algorithms/shortest_path/dijkstra.rs",
    "} else if !first_only && vu_dist == seen[u] {\n                push_fringe_node",
    "} else if !first_only && vu_dist == seen[u] && u % 7 != 3 {\n                push_fringe_node", ["C04", "C08"])
mut("dijkstra_cutoff_off_by_one", "src/algorithms/shortest_path/dijkstra.rs",
    "if cutoff.map_or(false, |c| vu_dist > c) {", "if cutoff.map_or(false, |c| vu_dist >= c) {", ["C08"])
mut("dijkstra_target_break_early", "src/algorithms/shortest_path/dijkstra.rs",
    "        dist[v] = d;\n        if target.as_ref() == Some(&v) {\n            break;\n        }",
    "        if target.as_ref() == Some(&v) {\n            break;\n        }\n        dist[v] = d;", ["C08"])
mut("dijkstra_basic_weight_ignored_large", "src/algorithms/shortest_path/dijkstra.rs",
    "            let vu_dist = dist[v] + cost;\n            if vu_dist < seen[u] {",
    "            let vu_dist = dist[v] + if graph.number_of_nodes() > 24 { 1.0 } else { cost };\n            if vu_dist < seen[u] {", ["C04", "C08"])
mut("involving_includes_endpoints", "src/algorithms/shortest_path/shortest_path_info.rs",
    "if path[1..(path.len() - 1)].contains(&node_name) {", "if path[1..].contains(&node_name) {", ["C08"])
mut("all_pairs_par_skips_last", "src/algorithms/shortest_path/dijkstra.rs",
    "    let x = (0..graph.number_of_nodes())\n        .collect::<Vec<_>>()\n        .into_par_iter()",
    "    let x = (0..graph.number_of_nodes() - 1)\n        .collect::<Vec<_>>()\n        .into_par_iter()", ["C04", "C07", "C08"])
# ---- betweenness
mut("betweenness_counts_source", "src/algorithms/centrality/betweenness.rs",
    "        if *w != result.source {\n            betweenness[*w] += delta[*w];\n        }",
    "        betweenness[*w] += delta[*w];", ["C05"])
mut("betweenness_norm_n2", "src/algorithms/centrality/betweenness.rs",
    "true => match num_nodes <= 2 {", "true => match num_nodes <= 3 {", ["C05"])
mut("betweenness_undirected_not_halved_when_normalized_off", "src/algorithms/centrality/betweenness.rs",
    "            false => Some(0.5),", "            false => Some(1.0),", ["C05"])
mut("betweenness_weighted_tie_lost", "src/algorithms/centrality/betweenness.rs",
    "            } else if vw_dist == seen[w] {\n                sigma[w] += sigma[v];\n                P[w].push(v);",
    "            } else if vw_dist == seen[w] && D[w] == f64::MAX {\n                sigma[w] += sigma[v];\n                if P[w].len() < 2 { P[w].push(v); }", ["C05"])
# ---- closeness
mut("closeness_no_reverse", "src/algorithms/centrality/closeness.rs",
    "    if graph.specs.directed {\n        x = graph.reverse().unwrap();", "    if graph.specs.directed && graph.number_of_nodes() < 3 {\n        x = graph.reverse().unwrap();", ["C06"])
mut("closeness_wf_scale", "src/algorithms/centrality/closeness.rs",
    "let s = s / (num_nodes - 1) as f64;", "let s = s / num_nodes as f64;", ["C06"])
# ---- graph store
mut("add_edge_undirected_dup_orientation", "src/graph/query.rs",
    "        let (ordered_u, ordered_v) = match !self.specs.directed && u > v {\n            false => (u, v),\n            true => (v, u),\n        };\n\n        match self.edges_map.get(&ordered_u) {\n            None => Err(Error {\n                kind: ErrorKind::EdgeNotFound,\n                message: format!(\"The requested edge ({}, {}) does not exist.\", u, v),\n            }),\n            Some(edges) => match edges.get(&ordered_v) {\n                None => Err(Error {\n                    kind: ErrorKind::EdgeNotFound,\n                    message: format!(\"The requested edge ({}, {}) does not exist.\", u, v),\n                }),\n                Some(e) => Ok(&e[0]),",
    "        let (ordered_u, ordered_v) = match !self.specs.directed && u > v && self.nodes_vec[u].name > self.nodes_vec[v].name {\n            false => (u, v),\n            true => (v, u),\n        };\n\n        match self.edges_map.get(&ordered_u) {\n            None => Err(Error {\n                kind: ErrorKind::EdgeNotFound,\n                message: format!(\"The requested edge ({}, {}) does not exist.\", u, v),\n            }),\n            Some(edges) => match edges.get(&ordered_v) {\n                None => Err(Error {\n                    kind: ErrorKind::EdgeNotFound,\n                    message: format!(\"The requested edge ({}, {}) does not exist.\", u, v),\n                }),\n                Some(e) => Ok(&e[0]),", ["C01", "C02"])
mut("batch_add_continues_after_error", "src/graph/creation.rs",
    "        for edge in edges {\n            self.add_edge(edge)?;\n        }\n        Ok(())\n    }",
    "        let mut r = Ok(());\n        for edge in edges {\n            let x = self.add_edge(edge);\n            if r.is_ok() { r = x; }\n        }\n        r\n    }", ["C01"])
mut("missing_node_created_before_dup_error", "src/graph/creation.rs",
    "        // check for missing nodes\n        if self.specs.missing_node_strategy == MissingNodeStrategy::Error\n            && (!self.nodes_map.contains_key(&edge.u) || !self.nodes_map.contains_key(&edge.v))",
    "        // check for missing nodes\n        if self.specs.missing_node_strategy == MissingNodeStrategy::Error\n            && (!self.nodes_map.contains_key(&edge.u) && !self.nodes_map.contains_key(&edge.v))", ["C01"])
mut("readd_node_moves_position", "src/graph/creation.rs",
    "                self.nodes_map_rev.insert(node_index, node.clone());\n            }",
    "                if node.attributes.is_none() { self.nodes_map_rev.insert(node_index, node.clone()); }\n            }", ["C02"])
mut("keeplast_forgets_edges_map", "src/graph/creation.rs",
    "                    EdgeDedupeStrategy::KeepLast => {\n                        self.edges.insert(\n                            (ordered.u.clone(), ordered.v.clone()),\n                            vec![ordered.clone()],\n                        );\n                        self.edges_map",
    "                    EdgeDedupeStrategy::KeepLast => {\n                        self.edges.insert(\n                            (ordered.u.clone(), ordered.v.clone()),\n                            vec![ordered.clone()],\n                        );\n                        if self.specs.directed { self.edges_map", ["C02"])  # placeholder, closed below
M.pop()  # the mutant above needs a matching brace; skipped
mut("keeplast_stale_traversal_weight", "src/graph/creation.rs",
    "                false => keep_last,", "                false => keep_last && weight < adjacency_vec[u_node_index][index].weight,", ["C03"])
mut("predecessors_vec_not_updated_on_multi_min", "src/graph/creation.rs",
    "                true => weight < adjacency_vec[u_node_index][index].weight,", "                true => weight <= adjacency_vec[u_node_index][index].weight && v_node_index != 2,", ["C03"])

# ---- further clauses (second round)
mut("louvain_communities_returns_first_level", "src/algorithms/community/louvain.rs",
    "        false => Ok(partitions.pop().unwrap()),", "        false => Ok(partitions.swap_remove(0)),", ["C13"])
mut("louvain_tiebreak_removed", "src/algorithms/community/louvain.rs",
    "    candidates.sort_by_key(|(nbr_com, _)| *nbr_com);\n", "", ["C17"])
mut("louvain_directed_gain_out_only", "src/algorithms/community/louvain.rs",
    "            if graph.specs.directed {\n                // the modularity gain", "            if graph.specs.directed && graph.number_of_nodes() < 4 {\n                // the modularity gain", ["C13"])
mut("reverse_loses_weight_of_self_loops", "src/graph/convert.rs",
    "            .map(|edge| edge.clone().reversed().into())", "            .map(|edge| if edge.u == edge.v { Edge::new(edge.u.clone(), edge.v.clone()) } else { edge.clone().reversed().into() })", ["C15"])
mut("to_single_edges_max_instead_of_sum", "src/graph/convert.rs",
    "    let sum_weight = v.iter().map(|e| e.weight).sum();", "    let sum_weight = v.iter().map(|e| e.weight).fold(f64::NAN, f64::max);", ["C15"])
mut("subgraph_keeps_edges_with_one_end", "src/graph/subgraph.rs",
    ".filter(|e| nodes_set.contains(&e.u) && nodes_set.contains(&e.v))", ".filter(|e| nodes_set.contains(&e.u) && (nodes_set.contains(&e.v) || nodes_set.len() > 4))", ["C15"])
mut("weak_components_ignore_predecessors_of_late_nodes", "src/algorithms/components/weak_connectivity.rs",
    "                    .union(gpred.get(&v).unwrap_or(&empty_hs))", "                    .union(if connected_nodes.len() > 6 { &empty_hs } else { gpred.get(&v).unwrap_or(&empty_hs) })", ["C10"])
mut("modularity_directed_in_degree_is_out_degree", "src/algorithms/community/partitions.rs",
    "            true => community.iter().map(|n| in_degree.get(n).unwrap()).sum(),", "            true => community.iter().map(|n| out_degree.get(n).unwrap()).sum(),", ["C12"])
mut("eigenvector_convergence_test_looser", "src/algorithms/centrality/eigenvector.rs",
    "        if y < (nnodes as f64 * _tolerance) {", "        if y < (nnodes as f64 * _tolerance) * 50.0 + 0.2 {", ["C18"])
mut("eigenvector_returns_vector_on_exhaustion", "src/algorithms/centrality/eigenvector.rs",
    "    Err(Error {\n        kind: ErrorKind::PowerIterationFailedConvergence,", "    if _max_iter > 3 { return Ok(x); }\n    Err(Error {\n        kind: ErrorKind::PowerIterationFailedConvergence,", ["C18"])
mut("gnp_seed_only_low_bits", "src/generators/random.rs",
    "        Some(s) => Box::new(ChaCha20Rng::seed_from_u64(s)),", "        Some(s) => Box::new(ChaCha20Rng::seed_from_u64(s ^ (std::process::id() as u64))),", ["C17"])
mut("gnp_directed_allows_self_loop_slot", "src/generators/random.rs",
    "        if v == w {\n            w += 1;\n        }\n        while v < num_nodes && num_nodes <= w {", "        if v == w && v < 6 {\n            w += 1;\n        }\n        while v < num_nodes && num_nodes <= w {", ["C16"])
mut("complete_graph_directed_misses_reverse_pairs", "src/generators/classic.rs",
    "        true => (0..num_nodes).permutations(2).collect::<Vec<Vec<i32>>>(),", "        true => (0..num_nodes).permutations(2).filter(|p| p[0] < p[1] || p[0] < 40).collect::<Vec<Vec<i32>>>(),", ["C16"])
mut("in_edges_for_nodes_uses_source", "src/graph/query.rs",
    "            .filter(|e| names_set.contains(&e.v))", "            .filter(|e| names_set.contains(&e.v) || (e.u == e.v && names_set.contains(&e.u)) || (names_set.len() > 2 && names_set.contains(&e.u)))", ["C02"])
mut("transitivity_counts_triples_once_too_few", "src/algorithms/cluster/mod.rs",
    "        false => Ok(triangles / contri),", "        false => Ok(if contri > 40.0 { triangles / (contri - 2.0) } else { triangles / contri }),", ["C11"])
mut("directed_clustering_reciprocal_degree_counts_self", "src/algorithms/cluster/directed.rs",
    "            let reciprocal_degree = ipreds.intersection(&isuccs).count();", "            let reciprocal_degree = ipreds.intersection(&isuccs).count().min(2);", ["C11"])
mut("graphml_weight_parse_garbage_as_zero", "src/readwrite/graphml.rs",
    "let weight = text.trim().parse::<f64>().map_err(|_| {", "let weight = text.trim().trim_end_matches(|c: char| c.is_alphabetic()).parse::<f64>().map_err(|_| {", ["C14"])
mut("degree_centrality_divides_by_n", "src/algorithms/centrality/degree.rs",
    "    let s = 1.0 / (num_nodes as f64 - 1.0);", "    let s = if num_nodes > 9 { 1.0 / num_nodes as f64 } else { 1.0 / (num_nodes as f64 - 1.0) };", ["C09"])
mut("bfs_partitions_drop_node_when_full", "src/algorithms/components/weak_connectivity.rs",
    "    let partition_max_size = (graph.number_of_nodes() / num_partitions) + 1;", "    let partition_max_size = (graph.number_of_nodes() / num_partitions) + 2;", ["C10"])


def run(cmd, cwd=None, timeout=3600):
    return subprocess.run(cmd, cwd=cwd, shell=True, stdout=subprocess.PIPE, stderr=subprocess.STDOUT, text=True, timeout=timeout)

def restore():
    run("git checkout -- .", cwd=REPO)

def main():
    args = sys.argv[1:]
    only = None; props_filter = None; with_tests = False
    i = 0
    while i < len(args):
        if args[i] == "--only": i += 1; only = set(args[i].split(","))
        elif args[i] == "--props": i += 1; props_filter = set(args[i].split(","))
        elif args[i] == "--with-tests": with_tests = True
        elif args[i] == "--list":
            for m in M: print(m["name"], m["props"])
            return
        i += 1
    if run("git status --porcelain", cwd=REPO).stdout.strip():
        print("refusing: /repo has uncommitted changes"); sys.exit(2)
    results = []
    try:
        for m in M:
            if only and m["name"] not in only: continue
            if props_filter and not (set(m["props"]) & props_filter): continue
            path = os.path.join(REPO, m["file"])
            src = open(path).read()
            if src.count(m["old"]) < 1:
                print(f"[{m['name']}] PATTERN NOT FOUND in {m['file']}"); results.append((m["name"], "nopattern")); continue
            open(path, "w").write(src.replace(m["old"], m["new"], m["count"]))
            row = {"name": m["name"]}
            if with_tests:
                r = run(f"python3 {VERIF}/scripts/baseline_off.py")
                row["tests"] = "pass" if r.returncode == 0 else "FAIL"
            for p in m["props"]:
                if props_filter and p not in props_filter: continue
                t0 = time.time()
                r = run(f"./check {p} --tier quick --no-evidence", cwd=VERIF)
                caught = r.returncode == 1 and "VIOLATION property=" + p in r.stdout
                fl = [l for l in r.stdout.splitlines() if l.strip().startswith("failure")]
                row[p] = ("CAUGHT" if caught else f"MISSED(exit={r.returncode})") + f" {time.time()-t0:.0f}s " + (fl[0].strip()[:110] if fl else "")
            restore()
            print(json.dumps(row)); sys.stdout.flush()
            results.append(row)
    finally:
        restore()

main()
