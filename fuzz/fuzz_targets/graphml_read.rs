#![no_main]
use libfuzzer_sys::fuzz_target;

// byte 0 selects the GraphSpecs, the rest is the document; the C19 oracle runs inside the target
fuzz_target!(|data: &[u8]| {
    gverif::fuzz::graphml_read(data);
});
