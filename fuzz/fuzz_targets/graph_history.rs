#![no_main]
use libfuzzer_sys::fuzz_target;

// bytes are decoded into a mutation history; the C01/C02/C03 oracles run inside the target
fuzz_target!(|data: &[u8]| {
    gverif::fuzz::graph_history(data);
});
